------------------------------ MODULE MC_CsvIO ------------------------------
(***************************************************************************)
(* Parse(Rows(W)) ~ W and the fixpoint Rows(Parse(Rows(W))) = Rows(...)    *)
(* for every bounded world: every forest shape of N tasks, ids including 0 *)
(* and negative numbers, predecessor lists, absent / empty / present text, *)
(* dates, numbers, sparse custom attributes.  One world per initial state. *)
(***************************************************************************)
EXTENDS CsvIO

CONSTANTS N, NTEXT

VARIABLE W

T == 1..N
Shapes == {p \in [T -> 0..(N - 1)] : \A i \in T : p[i] < i /\ (p[i] # 0 => \A j \in (p[i] + 1)..(i - 1) : p[j] >= p[i])}
   \* parent vectors of forests numbered depth-first
KidsOf(p, t) == SeqOfSet({c \in T : p[c] = t})
IdPools == {<<0, -1, 5, 2>>, <<3, 0, 7, -4>>}
TextCells == {NoneC} \cup {[k |-> "text", v |-> i] : i \in 0..(NTEXT - 2)}
DateCells == {NoneC, [k |-> "date", v |-> 3]}
NumCells  == {NoneC, [k |-> "int", v |-> 0], [k |-> "num", n |-> 1, d |-> 2]}
Customs   == {<<>>, <<[col |-> "a", v |-> [k |-> "text", v |-> 1]]>>,
              <<[col |-> "b", v |-> [k |-> "text", v |-> 2]], [col |-> "a", v |-> NoneC]>>}
PreSets(p) == {q \in [T -> SUBSET T] : /\ \A u \in T : u \notin q[u]
                                          /\ Cardinality(UNION {{<<z, x>> : x \in q[z]} : z \in T}) <= 2}
TwoCustoms == {cu \in [T -> Customs] : \A u \in T : u > 2 => cu[u] = <<>>}

Init == \E p \in Shapes : \E q \in PreSets(p) : \E ids \in IdPools :
        \E nm \in [T -> TextCells] : \E cu \in TwoCustoms :
        \E dt \in DateCells : \E nu \in NumCells :
          W = [ids |-> [t \in T |-> ids[t]], par |-> p, kids |-> [t \in T |-> KidsOf(p, t)],
               roots |-> SeqOfSet({c \in T : p[c] = 0}),
               pre |-> [t \in T |-> SeqOfSet(q[t])],
               f |-> [t \in T |-> [name |-> nm[t], resource |-> nm[(t % N) + 1], start |-> dt, end |-> dt,
                                   est |-> nu, spent |-> IF t = 1 THEN nu ELSE NoneC, ms |-> (t = 2),
                                   minstart |-> IF t = 1 THEN dt ELSE NoneC]],
               custom |-> cu]
Next == UNCHANGED W
Spec == Init /\ [][Next]_W

RoundTrip == Equiv(Parse(Rows(W)), W)
Fixpoint  == Rows(Parse(Rows(Parse(Rows(W))))) = Rows(Parse(Rows(W)))
OneRowPerTask == Len(Rows(W).rows) = N /\ \A t \in T : Len(Rows(W).rows[t]) = Len(Rows(W).header)
=============================================================================
