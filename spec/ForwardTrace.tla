---------------------------- MODULE ForwardTrace ----------------------------
(***************************************************************************)
(* Conformance of recorded ForwardScheduler.calc executions with the       *)
(* intended design: the machine of Forward.tla is run on each recorded     *)
(* input and its outcome, dates and ledger rows (in order) are compared    *)
(* with the recorded ones.  Differences are DRIFT, never violations: the   *)
(* properties are decided by SchedTrace.  One case after the other;        *)
(* between two cases the machine is re-initialised.                        *)
(***************************************************************************)
EXTENDS Forward, Json, IOUtils, TLCExt

Batch == JsonDeserialize(IOEnv.TRACE_FILE)

VARIABLE k
tvars == <<k, inp, todo, done, R, out>>

Drift(id, what) == PrintT(<<"DRIFT", id, what>>)

Compare(e) ==
    LET X == e.R IN
    IF out = "fail" THEN (X.out = "RuntimeError" \/ Drift(e.id, <<"outcome", X.out, "design fails">>))
    ELSE IF X.out # "ok" THEN Drift(e.id, <<"outcome", X.out, "design schedules">>)
    ELSE /\ (X.rows = R.rows \/ Drift(e.id, "rows"))
         /\ ((X.start = R.start /\ X.end = R.end) \/ Drift(e.id, <<"dates", X.start, R.start, X.end, R.end>>))

TInit == k = 1 /\ Start(Batch[1].I)

Load(i) ==
    IF i <= Len(Batch)
    THEN /\ inp' = Batch[i].I /\ done' = {} /\ R' = InitR(Batch[i].I)
         /\ todo' = InitTodo(Batch[i].I) /\ out' = InitOut(Batch[i].I)
    ELSE UNCHANGED <<inp, todo, done, R, out>>

TNext ==
    \/ /\ k <= Len(Batch) /\ out = "run" /\ Step /\ k' = k
    \/ /\ k <= Len(Batch) /\ out # "run"
       /\ k' = IF Compare(Batch[k]) THEN k + 1 ELSE k + 1
       /\ Load(k + 1)

Done == (k = Len(Batch) + 1) => PrintT(<<"JUDGED", Len(Batch)>>)
Spec == TInit /\ [][TNext]_tvars
=============================================================================
