----------------------------- MODULE QueryTrace -----------------------------
(***************************************************************************)
(* Judge for task queries and bulk operations recorded from the real code. *)
(* Event: [id, kind, W, list, qry, out, ret, after, mem, attr, value]      *)
(*   kind = "select"    : ret = numbers of the returned tasks, in order    *)
(*   kind = "bulkset"   : setattr(list(query), attr, value)                *)
(*   kind = "removeall" : list.remove_all(query) / wbs.remove_all(query);  *)
(*                        mem[t] = t is still listed in wbs.tasks          *)
(* W / after are worlds of Query.tla (projection through public getters).  *)
(***************************************************************************)
EXTENDS Query, Json, IOUtils, TLCExt

Batch == JsonDeserialize(IOEnv.TRACE_FILE)
VARIABLE k
Report(ok, e, clause, detail) == IF ok THEN TRUE ELSE PrintT(<<"FAIL", e.id, clause, detail>>)

(* dependency lists are compared as sets: re-assigning a link list re-appends the mirror entries *)
SameWorld(A, B) ==
    /\ A.par = B.par /\ A.kids = B.kids /\ A.roots = B.roots /\ A.ids = B.ids /\ A.attrs = B.attrs
    /\ \A t \in DOMAIN A.pre : RanQ(A.pre[t]) = RanQ(B.pre[t]) /\ RanQ(A.suc[t]) = RanQ(B.suc[t])

Cand(e) == IF e.list.kind = "wbs" THEN DfsQ(e.W, e.W.roots) ELSE ListOf(e.W, e.list)

Judge(e) ==
    LET W == e.W
        want == Select(W, Cand(e), e.qry)
    IN
    /\ Report(e.out = "ok", e, "C18.outcome", e.out)
    /\ e.out = "ok" =>
        CASE e.kind = "select" ->
                /\ Report(e.ret = want, e, "C18.select", <<e.ret, want>>)
                /\ Report(e.after = W, e, "C18.pure", 0)                  \* a query changes nothing, not even an order
          [] e.kind = "bulkset" ->
                LET exp == [W EXCEPT !.attrs = [t \in DOMAIN W.attrs |->
                                IF t \in RanQ(want) THEN [W.attrs[t] EXCEPT ![e.attr] = e.value] ELSE W.attrs[t]]]
                IN  Report(SameWorld(e.after, exp), e, "C18.bulkset", RanQ(want))
          [] e.kind = "order" ->
                /\ Report(e.ret = OrderBy(W, Cand(e), e.key, e.rev), e, "PROTO.order", <<e.ret, Cand(e)>>)
                /\ Report(e.after = W, e, "PROTO.pure", 0)
          [] e.kind = "column" ->
                /\ Report(e.ret = Cand(e) /\ e.len = Len(Cand(e)), e, "PROTO.iter", 0)
                /\ Report(Len(e.col) = Len(Cand(e)) /\ \A i \in DOMAIN e.col : SameValue(e.col[i], Column(W, Cand(e), e.attr)[i]),
                          e, "PROTO.column", 0)
          [] e.kind = "index" ->
                LET pos == PositionIn(Cand(e), e.probe) IN
                Report(IF pos = -1 THEN ~e.found ELSE (e.found /\ e.ret = <<pos>>), e, "PROTO.index", pos)
          [] e.kind = "removeall" ->
                LET exp == AfterRemoveAll(W, e.list, e.qry) IN
                /\ Report(e.ret = want, e, "C18.removed", <<e.ret, want>>)
                /\ Report(SameWorld(e.after, exp), e, "C18.removeall", 0)
                \* (tasks numbered above W.nm are outside the WBS from the start: linked to members, never listed)
                /\ Report(\A t \in DOMAIN e.mem : e.mem[t] = (t <= W.nm /\ t \notin Gone(W, e.list, e.qry)), e, "C18.members", 0)

Init == k = 1
Next == /\ k <= Len(Batch)
        /\ k' = IF Judge(Batch[k]) THEN k + 1 ELSE k + 1
Done == (k = Len(Batch) + 1) => PrintT(<<"JUDGED", Len(Batch)>>)
Spec == Init /\ [][Next]_k
=============================================================================
