------------------------------ MODULE Forward ------------------------------
(***************************************************************************)
(* The forward scheduler as a deterministic state machine (the intended    *)
(* design; DESIGN Appendix C), written to be bound: one action per step of *)
(* the code's pass, and in particular ONE ACTION PER LEDGER ROW, so that   *)
(* the usage rows of a real calc() are a trace of this machine.            *)
(*                                                                         *)
(*   inp   the input I (Sched.tla)                                         *)
(*   todo  stack of work items  <<"visit", t>> | <<"place", t>> |          *)
(*         <<"reserve", t, day, left, tries>>                               *)
(*   done  tasks already placed                                            *)
(*   R     [start, end, est, spent, rows]  (-1 / NoInfo = not yet set)     *)
(*   out   "run" | "ok" | "fail"                                           *)
(*                                                                         *)
(* MC_Forward checks on every bounded input: termination, at most one      *)
(* enabled step (determinism), out = "fail" <=> the input is unschedulable *)
(* within the horizon, and, when out = "ok", EVERY forward clause of       *)
(* Sched.tla (C02 C03 C04 C07 C08) - the properties are jointly satisfied  *)
(* by a concrete design, and the clause formalisation is validated against *)
(* an independent algorithm.  ForwardTrace replays recorded executions     *)
(* row by row against this machine (conformance, reported as DRIFT).       *)
(***************************************************************************)
EXTENDS Sched

CONSTANT HORIZON        \* days the searches look ahead before giving up

VARIABLES inp, todo, done, R, out
fvars == <<inp, todo, done, R, out>>

---------------------------------------------------------------------------
RECURSIVE AncSeq(_, _)
AncSeq(I, t) == IF I.tasks[t].par = 0 THEN <<>> ELSE <<I.tasks[t].par>> \o AncSeq(I, I.tasks[t].par)
RECURSIVE CatPre(_, _)
CatPre(I, ts) == IF ts = <<>> THEN <<>> ELSE I.tasks[Head(ts)].pre \o CatPre(I, Tail(ts))
(* own predecessors first, then those of the parents, nearest parent first *)
PrereqSeq(I, t) == CatPre(I, <<t>> \o AncSeq(I, t))

EndM(I, r, p)   == IF p > NT(I) THEN I.ext[p - NT(I)].end ELSE r.end[p]
MaxOfOr(S, d)   == IF S = {} THEN d ELSE MaxOf(S \cup {d})
PredEnds(I, r, t) == {EndM(I, r, p) : p \in PrereqTasks(I, t)}

BookedIn(rows, rs, d) == LET J == {j \in DOMAIN rows : rows[j].r = rs /\ rows[j].d = d}
                         IN  SumRows([rows |-> rows], J)
BookedByIn(rows, rs, d, t) == LET J == {j \in DOMAIN rows : rows[j].r = rs /\ rows[j].d = d /\ rows[j].t = t}
                              IN  SumRows([rows |-> rows], J)
UsedFor(I, rows, t, d) == IF I.balance THEN BookedIn(rows, ResOf(I, t), d) ELSE BookedByIn(rows, ResOf(I, t), d, t)
FreeFor(I, rows, t, d) == QSub(Cap(I, ResOf(I, t), d), UsedFor(I, rows, t, d))

(* minutes into the day that correspond to the share booked / cap (exact for the generated inputs) *)
ShareMin(booked, cap) == LET q == QDiv(QMul(<<Day, 1>>, booked), cap) IN q[1] \div q[2]

InitR(I) ==
    [start |-> [t \in Tasks(I) |-> IF IsLeaf(I, t) THEN I.tasks[t].fstart ELSE Missing],
     end   |-> [t \in Tasks(I) |-> IF IsLeaf(I, t) THEN I.tasks[t].fend ELSE Missing],
     est   |-> [t \in Tasks(I) |-> IF IsLeaf(I, t) THEN I.tasks[t].est ELSE NoInfo],
     spent |-> [t \in Tasks(I) |-> IF IsLeaf(I, t) THEN I.tasks[t].spent ELSE NoInfo],
     rows  |-> <<>>]

Preflight(I) == ExtMissing(I) \/ FutureEnd(I) \/ HasHierarchyCycle(I)

InitTodo(I) == IF Preflight(I) THEN <<>> ELSE [i \in DOMAIN I.roots |-> <<"visit", I.roots[i]>>]
InitOut(I)  == IF Preflight(I) THEN "fail" ELSE "run"
Start(I) ==
    /\ inp = I
    /\ done = {}
    /\ R = InitR(I)
    /\ todo = InitTodo(I)
    /\ out = InitOut(I)

---------------------------------------------------------------------------
Top == Head(todo)
Rest == Tail(todo)

(* visit: prerequisites (own and inherited) first, then the children, then the task itself *)
Visit ==
    /\ out = "run" /\ todo # <<>> /\ Top[1] = "visit"
    /\ LET t == Top[2] IN
       IF t \in done \/ t > NT(inp)
       THEN todo' = Rest
       ELSE todo' = [i \in DOMAIN PrereqSeq(inp, t) |-> <<"visit", PrereqSeq(inp, t)[i]>>]
                    \o [i \in DOMAIN inp.tasks[t].kids |-> <<"visit", inp.tasks[t].kids[i]>>]
                    \o <<<<"place", t>>>> \o Rest
    /\ UNCHANGED <<inp, done, R, out>>

(* the first day >= d0 within the horizon that satisfies P, or -1 *)
FirstDayWith(d0, P(_)) == LET S == {d \in d0..(d0 + HORIZON) : P(d)} IN IF S = {} THEN -1 ELSE MinOf(S)

PlaceSummary(t) ==
    LET ks == Kids(inp, t) IN
    /\ R' = [R EXCEPT !.start[t] = MinOf({R.start[c] : c \in ks}),
                      !.end[t]   = MaxOf({R.end[c] : c \in ks}),
                      !.est[t]   = SumQ([i \in DOMAIN inp.tasks[t].kids |-> R.est[inp.tasks[t].kids[i]]]),
                      !.spent[t] = SumQ([i \in DOMAIN inp.tasks[t].kids |-> R.spent[inp.tasks[t].kids[i]]])]
    /\ done' = done \cup {t} /\ todo' = Rest /\ UNCHANGED <<inp, out>>

PlaceMilestone(t) ==
    LET at == MaxOfOr(PredEnds(inp, R, t), inp.pstart) IN
    /\ R' = [R EXCEPT !.start[t] = at, !.end[t] = at, !.est[t] = Zero, !.spent[t] = Zero]
    /\ done' = done \cup {t} /\ todo' = Rest /\ UNCHANGED <<inp, out>>

(* a leaf: choose the start (unless fixed), then either finish at once (no work / fixed end) or start reserving *)
PlaceLeaf(t) ==
    LET I == inp
        est1 == OrElse(R.est[t], I.defEst)
        sp1  == OrElse(R.spent[t], Zero)
        left == LET d == QSub(est1, sp1) IN IF QNeg(d) THEN Zero ELSE d
        rel  == MaxOfOr(PredEnds(I, R, t) \cup {I.now} \cup (IF I.tasks[t].minStart # Missing THEN {I.tasks[t].minStart} ELSE {}),
                        I.pstart)
        dcap == FirstDayWith(DayOf(rel), LAMBDA d : QPos(Cap(I, ResOf(I, t), d)))
        dfree == IF dcap = -1 THEN -1 ELSE FirstDayWith(dcap, LAMBDA d : QPos(FreeFor(I, R.rows, t, d)))
        st   == IF R.start[t] # Missing THEN R.start[t]
                ELSE Midnight(dfree) + ShareMin(UsedFor(I, R.rows, t, dfree), Cap(I, ResOf(I, t), dfree))
        clock == I.now > I.pstart
        ws   == MaxOf({st, IF clock THEN I.now ELSE I.pstart})
        R1   == [R EXCEPT !.start[t] = st, !.est[t] = est1, !.spent[t] = sp1]
    IN
    IF R.start[t] = Missing /\ (dcap = -1 \/ dfree = -1)
    THEN out' = "fail" /\ todo' = <<>> /\ UNCHANGED <<inp, done, R>>
    ELSE IF R.end[t] # Missing                      \* end fixed by the user: completed task
    THEN /\ R' = R1 /\ done' = done \cup {t} /\ todo' = Rest /\ UNCHANGED <<inp, out>>
    ELSE IF QZero(left)
    THEN /\ R' = [R1 EXCEPT !.end[t] = MaxOf({ws, st} \cup (IF clock THEN {I.now} ELSE {}))]
         /\ done' = done \cup {t} /\ todo' = Rest /\ UNCHANGED <<inp, out>>
    ELSE /\ R' = R1
         /\ todo' = <<<<"reserve", t, DayOf(ws), left, 0>>>> \o Rest
         /\ UNCHANGED <<inp, done, out>>

Place ==
    /\ out = "run" /\ todo # <<>> /\ Top[1] = "place"
    /\ LET t == Top[2] IN
       IF ~IsLeaf(inp, t) THEN PlaceSummary(t)
       ELSE IF IsMs(inp, t) THEN PlaceMilestone(t)
       ELSE PlaceLeaf(t)

(* one day of the reservation loop: either one ledger row, or a day without free capacity *)
Reserve ==
    /\ out = "run" /\ todo # <<>> /\ Top[1] = "reserve"
    /\ LET t == Top[2]  d == Top[3]  left == Top[4]  tries == Top[5]
           I == inp
           r == ResOf(I, t)
           free == FreeFor(I, R.rows, t, d)
       IN
       IF tries > HORIZON
       THEN out' = "fail" /\ todo' = <<>> /\ UNCHANGED <<inp, done, R>>
       ELSE IF ~QPos(free)
       THEN todo' = <<<<"reserve", t, d + 1, left, tries + 1>>>> \o Rest /\ UNCHANGED <<inp, done, R, out>>
       ELSE LET u == IF QLess(left, free) THEN left ELSE free
                rows1 == Append(R.rows, [r |-> r, d |-> d, t |-> t, u |-> u])
                left1 == QSub(left, u)
            IN
            IF QPos(left1)
            THEN /\ R' = [R EXCEPT !.rows = rows1]
                 /\ todo' = <<<<"reserve", t, d + 1, left1, tries + 1>>>> \o Rest
                 /\ UNCHANGED <<inp, done, out>>
            ELSE LET e0 == Midnight(d) + ShareMin(UsedFor(I, rows1, t, d), Cap(I, r, d))
                     e1 == IF I.now > I.pstart THEN MaxOf({e0, I.now}) ELSE e0
                 IN
                 /\ R' = [R EXCEPT !.rows = rows1, !.end[t] = MaxOf({e1, R.start[t]})]
                 /\ done' = done \cup {t} /\ todo' = Rest /\ UNCHANGED <<inp, out>>

Finish ==
    /\ out = "run" /\ todo = <<>>
    /\ out' = "ok"
    /\ UNCHANGED <<inp, todo, done, R>>

Step == Visit \/ Place \/ Reserve \/ Finish

---------------------------------------------------------------------------
(* the machine's result in the shape the clauses of Sched.tla expect *)
Result ==
    [out |-> out, start |-> R.start, end |-> R.end, est |-> R.est, spent |-> R.spent, rows |-> R.rows,
     wstart |-> IF NT(inp) = 0 THEN Missing ELSE MinOf({R.start[t] : t \in Tasks(inp)}),
     wend   |-> IF NT(inp) = 0 THEN Missing ELSE MaxOf({R.end[t] : t \in Tasks(inp)})]

SchedLeafF(I, t) == IsLeaf(I, t) /\ ~IsMs(I, t)
FreeStartF(I, t) == SchedLeafF(I, t) /\ ~StartFixed(I, t)
WorkingF(I, t)   == SchedLeafF(I, t) /\ ~Completed(I, t)

AllForwardClauses(I, X) ==
    /\ \A t \in Tasks(I) :
        /\ FreeStartF(I, t) => C02_NotBefore(I, X, t)
        /\ (IsLeaf(I, t) /\ IsMs(I, t)) => C02_Milestone(I, X, t)
        /\ WorkingF(I, t) => C04_Work(I, X, t) /\ C04_Dates(I, X, t)
        /\ ~WorkingF(I, t) => C04_NoRows(I, X, t)
        /\ SchedLeafF(I, t) => C04_FixedKept(I, X, t)
        /\ C07_Order(I, X, t)
        /\ ~IsLeaf(I, t) => C07_RollUp(I, X, t)
        /\ (I.balance /\ FreeStartF(I, t)) => C08_Tight(I, X, t)
        /\ (I.balance /\ FreeStartF(I, t) /\ ~EndFixed(I, t) /\ I.now <= I.pstart /\ HasRows(X, t)) => C08_Encoding(I, X, t)
    /\ C07_Wbs(I, X)
    /\ I.balance => C08_WbsOrder(I, X)
    /\ \A j \in RowIdx(X) : C03_Row(I, X, j)
    /\ C03_Capacity(I, X)
=============================================================================
