----------------------------- MODULE RenderTrace -----------------------------
(***************************************************************************)
(* Judge for renderings (C19) and printed sheets (C20) recorded from the   *)
(* real code; documents are decoded into entries by the harness.           *)
(* Event kinds: gantt, network, dhtmlx, sheet, usage.                      *)
(***************************************************************************)
EXTENDS Render, Json, IOUtils, TLCExt

Batch == JsonDeserialize(IOEnv.TRACE_FILE)
VARIABLE k
Report(ok, e, clause, detail) == IF ok THEN TRUE ELSE PrintT(<<"FAIL", e.id, clause, detail>>)

(* a Gantt document as groups: the section lines in order, each with the SET of its task lines *)
SecPositions(d) == {i \in DOMAIN d : d[i].kind = "section"}
GroupOf(d, i) == LET nxt == {j \in SecPositions(d) : j > i}
                     hi == IF nxt = {} THEN Len(d) ELSE (CHOOSE j \in nxt : \A x \in nxt : j <= x) - 1
                 IN  {d[j] : j \in (i + 1)..hi}
Groups(d) == IF SecPositions(d) = {} THEN <<[sec |-> 0, tasks |-> RanR(d)]>>
             ELSE LET ps == SelectSeq([i \in DOMAIN d |-> i], LAMBDA i : d[i].kind = "section")
                  IN  [n \in DOMAIN ps |-> [sec |-> d[ps[n]].sec, tasks |-> GroupOf(d, ps[n])]]
Leading(d) == IF SecPositions(d) = {} THEN {} ELSE {d[j] : j \in 1..((CHOOSE i \in SecPositions(d) : \A x \in SecPositions(d) : i <= x) - 1)}
CountOf(d, x) == Cardinality({i \in DOMAIN d : d[i] = x})
SameBag(a, b) == Len(a) = Len(b) /\ \A x \in RanR(a) \cup RanR(b) : CountOf(a, x) = CountOf(b, x)

Judge(e) ==
    LET W == e.W IN
    /\ Report(e.out = "ok", e, "C" \o e.prop \o ".outcome", e.out)
    /\ e.out = "ok" =>
       CASE e.kind = "gantt" ->
              /\ Report(Len(e.doc) = Len(GanttDoc(W)) /\ Groups(e.doc) = Groups(GanttDoc(W)) /\ Leading(e.doc) = {},
                        e, "C19.gantt", 0)
              /\ Report(e.iframe, e, "C19.iframe", 0)
         [] e.kind = "network" ->
              /\ Report(SameBag(e.doc, NetworkDoc(W)), e, "C19.network", 0)
              /\ Report(e.iframe, e, "C19.iframe", 0)
         [] e.kind = "dhtmlx" ->
              /\ Report(e.jsonok, e, "C19.json", 0)
              /\ e.jsonok =>
                   /\ Report(Len(e.data) = NTr(W) /\ RanR(e.data) = DhtmlxData(W), e, "C19.data", 0)
                   /\ Report(Len(e.links) = NumLinks(W) /\ RanR(e.links) = LinkPairs(W)
                             /\ \A i, j \in DOMAIN e.linkids : e.linkids[i] = e.linkids[j] => i = j
                             /\ Len(e.linkids) = Len(e.links), e, "C19.links", 0)
                   /\ Report(e.progress, e, "C19.progress", 0)
              /\ Report(e.iframe, e, "C19.iframe", 0)
         [] e.kind = "sheet" ->
              LET rows == SheetRows(W, e.roots, 0, e.children) IN
              /\ Report(e.nlines = 1 + Len(rows), e, "C20.lines", <<e.nlines, Len(rows)>>)
              /\ Report(\A i, j \in DOMAIN e.widths : e.widths[i] = e.widths[j], e, "C20.width", 0)
              /\ e.nlines = 1 + Len(rows) =>
                   /\ Report(e.header, e, "C20.header", 0)
                   \* (without a readable header line the harness decodes no rows: nothing to look at row by row)
                   /\ Report(Len(e.rows) = Len(rows), e, "C20.header", <<"rows decoded", Len(e.rows)>>)
                   /\ Len(e.rows) = Len(rows) => \A r \in DOMAIN rows :
                        LET x == e.rows[r]  t == rows[r].t IN
                        /\ Report(x.hasid => x.id = W.ids[t], e, "C20.order", r)
                        /\ Report(x.hasname => ((x.blank \/ x.indent = 3 * rows[r].depth) /\ x.name = W.name[t]), e, "C20.indent", r)
                        /\ Report(x.haspre => x.pre = LinkCell(W, t), e, "C20.links", r)
                        /\ Report(x.hassuc => (Len(x.suc) = Cardinality(SuccCell(W, t)) /\ RanR(x.suc) = SuccCell(W, t)),
                                  e, "C20.links", r)
                        /\ Report(x.haspar => x.par = (IF W.par[t] = 0 THEN 0 ELSE W.ids[W.par[t]]), e, "C20.parent", r)
                        /\ Report(x.unknownempty, e, "C20.unknown", r)
                        /\ Report(x.fits, e, "C20.wide", r)
         [] e.kind = "usage" ->
              /\ Report(e.nlines = 1 + (e.last - e.first + 1), e, "C20.usage", <<e.nlines, e.first, e.last>>)
              /\ Report(\A i, j \in DOMAIN e.widths : e.widths[i] = e.widths[j], e, "C20.width", 0)

Init == k = 1
Next == /\ k <= Len(Batch)
        /\ k' = IF Judge(Batch[k]) THEN k + 1 ELSE k + 1
Done == (k = Len(Batch) + 1) => PrintT(<<"JUDGED", Len(Batch)>>)
Spec == Init /\ [][Next]_k
=============================================================================
