---------------------------- MODULE MC_CritPath ----------------------------
(***************************************************************************)
(* Bounded check of the critical-path definition: on every WBS of N tasks  *)
(* (every forest shape, at most MAXLINKS dependency links placed on leaves *)
(* or summaries, durations from DURS) the zero-float definition and the    *)
(* chain-enumeration definition select the same leaves, and the result is  *)
(* non-empty when a leaf exists.  Each input is one initial state.         *)
(***************************************************************************)
EXTENDS CritPath

CONSTANTS N, MAXLINKS, DURS

VARIABLE I

T == 1..N
Shapes == {p \in [T -> 0..(N - 1)] : \A i \in T : p[i] < i}
KidsSeq(p, t) == LET S == {c \in T : p[c] = t}
                 IN  IF S = {} THEN <<>>
                     ELSE [i \in 1..Cardinality(S) |-> CHOOSE c \in S : Cardinality({d \in S : d < c}) = i - 1]
RECURSIVE AncP(_, _)
AncP(p, t) == IF p[t] = 0 THEN {} ELSE {p[t]} \cup AncP(p, p[t])
Pairs(p) == {e \in T \X T : e[1] # e[2] /\ e[1] \notin AncP(p, e[2]) /\ e[2] \notin AncP(p, e[1])}
LinkSets(p) == {S \in SUBSET Pairs(p) : Cardinality(S) <= MAXLINKS}

Mk(p, L, d) ==
    [tasks |-> [t \in T |-> [par |-> p[t], kids |-> KidsSeq(p, t),
                             pre |-> LET P == {e[2] : e \in {x \in L : x[1] = t}}
                                     IN  IF P = {} THEN <<>>
                                         ELSE [i \in 1..Cardinality(P) |->
                                                  CHOOSE c \in P : Cardinality({z \in P : z < c}) = i - 1],
                             est |-> <<d[t], 1>>, spent |-> NoInfo]],
     ext |-> <<>>]

Inputs == {Mk(p, L, d) : p \in Shapes, L \in UNION {LinkSets(q) : q \in Shapes}, d \in [T -> DURS]}

Init == \E p \in Shapes : \E L \in LinkSets(p) : \E d \in [T -> DURS] :
           /\ I = Mk(p, L, d)
           /\ ~HasHierarchyCycle(I)
Next == UNCHANGED I
Spec == Init /\ [][Next]_I

DefsAgree == Critical(I) = CriticalByChains(I)
NonEmpty  == LeafSet(I) # {} => Critical(I) # {}
OnlyLeaves == Critical(I) \subseteq LeafSet(I)
=============================================================================
