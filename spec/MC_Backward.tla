---------------------------- MODULE MC_Backward ----------------------------
(***************************************************************************)
(* Bounded model check of the backward scheduler design (Backward.tla):    *)
(* every input of the bounded family is one initial state (no user-fixed   *)
(* dates: C09's domain).                                                   *)
(***************************************************************************)
EXTENDS Backward

CONSTANTS N, MAXLINKS, ESTS, DEFESTS, FREERES

T == 1..N
Shapes == {p \in [T -> 0..(N - 1)] : \A i \in T : p[i] < i /\ (p[i] # 0 => \A j \in (p[i] + 1)..(i - 1) : p[j] >= p[i])}
SeqOf(S) == [i \in 1..Cardinality(S) |-> CHOOSE x \in S : Cardinality({y \in S : y < x}) = i - 1]
RECURSIVE AncV(_, _)
AncV(p, t) == IF p[t] = 0 THEN {} ELSE {p[t]} \cup AncV(p, p[t])
Pairs(p) == {e \in T \X T : e[1] # e[2] /\ e[1] \notin AncV(p, e[2]) /\ e[2] \notin AncV(p, e[1])}
LinkSets(p) == {S \in SUBSET Pairs(p) : Cardinality(S) <= MAXLINKS /\ ~\E e \in S : <<e[2], e[1]>> \in S}
ResMaps == IF FREERES THEN [T -> 1..2] ELSE {[t \in T |-> 1 + (t % 2)]}

Wk8  == [k |-> "weekly", form |-> "list", days |-> <<0, 1, 2, 3, 4>>, u |-> <<8, 1>>, us |-> <<>>,
         hs |-> FALSE, s |-> 0, he |-> FALSE, e |-> 0]
Mwf4 == [k |-> "weekly", form |-> "list", days |-> <<0, 2, 4>>, u |-> <<4, 1>>, us |-> <<>>,
         hs |-> FALSE, s |-> 0, he |-> FALSE, e |-> 0]

Mk(p, L, est, res, ms, bal, pe, de) ==
    [dir |-> "bwd", balance |-> bal, defEst |-> de, pstart |-> pe, now |-> pe - 40 * Day,
     tasks |-> [t \in T |->
        [id |-> 10 * t, par |-> p[t], kids |-> SeqOf({c \in T : p[c] = t}),
         pre |-> SeqOf({e[2] : e \in {x \in L : x[1] = t}}),
         res |-> res[t], est |-> est[t], spent |-> IF t = 2 THEN <<1, 1>> ELSE NoInfo,
         ms |-> (ms = t), minStart |-> Missing, fstart |-> Missing, fend |-> Missing]],
     roots |-> SeqOf({c \in T : p[c] = 0}),
     resources |-> <<[expr |-> Wk8, never |-> FALSE], [expr |-> Mwf4, never |-> FALSE]>>,
     ext |-> <<>>, tod |-> FALSE]

Init == \E p \in Shapes : \E L \in LinkSets(p) : \E est \in [T -> ESTS] : \E res \in ResMaps :
        \E ms \in 0..N : \E bal \in BOOLEAN : \E pe \in {84 * Day, 86 * Day + 540, 90 * Day + 1} : \E de \in DEFESTS :
           StartB(Mk(p, L, est, res, IF ms > 0 /\ \E c \in T : p[c] = ms THEN 0 ELSE ms, bal, pe, de))

Spec == Init /\ [][StepB]_bvars /\ WF_bvars(StepB)

Terminates == <>(out # "run")
OkMeansClauses == out = "ok" => AllBackwardClauses(inp, ResultB)
FailHasReason == out = "fail" => PreflightB(inp)
Dated == out = "ok" => \A t \in Tasks(inp) : R.start[t] # Missing /\ R.end[t] # Missing
=============================================================================
