-------------------------------- MODULE CsvIO --------------------------------
(***************************************************************************)
(* CSV round trip (C13), at the level of rows and cells.                   *)
(*                                                                         *)
(* A world is one WBS, tasks 1..NT in depth-first order:                   *)
(*   W = [ids, par, kids, roots, pre, f, custom]                           *)
(*   f[t]      = [name, resource, start, end, est, spent, ms, minstart]    *)
(*   custom[t] = <<[col |-> c, v |-> cell]>> in attribute insertion order  *)
(* Cells:  [k |-> "none"] | [k |-> "text", v |-> i] (i: index into a pool  *)
(* of strings chosen by the harness; the specification never looks inside  *)
(* a string) | [k |-> "int", v] | [k |-> "num", n, d] | [k |-> "date", v]  *)
(* (day number) | [k |-> "bool", v] | [k |-> "ids", v |-> <<..>>].         *)
(*                                                                         *)
(* Rows(W) is the documented file layout; Parse(F) the documented reading; *)
(* MC_CsvIO checks Parse(Rows(W)) ~ W on every bounded world; CsvTrace     *)
(* compares the real write_csv / read_csv with both.                       *)
(***************************************************************************)
EXTENDS Naturals, Integers, Sequences, FiniteSets, TLC

NoneC == [k |-> "none"]
FixedCols == <<"id", "name", "resource", "start", "end", "estimate", "spent", "milestone", "parent_id",
               "predecessor_ids">>
FixedSet == {FixedCols[i] : i \in DOMAIN FixedCols}

NTc(W) == Len(W.ids)
Tc(W)  == 1..NTc(W)

(* custom columns in order of first appearance over the tasks in WBS order *)
RECURSIVE AddCols(_, _)
AddCols(acc, cs) == IF cs = <<>> THEN acc
                    ELSE LET c == Head(cs).col
                         IN  AddCols(IF \E i \in DOMAIN acc : acc[i] = c THEN acc ELSE Append(acc, c), Tail(cs))
RECURSIVE ColsFrom(_, _, _)
ColsFrom(W, t, acc) == IF t > NTc(W) THEN acc ELSE ColsFrom(W, t + 1, AddCols(acc, W.custom[t]))
CustomCols(W) == ColsFrom(W, 1, <<>>)
(* min_start travels as one more column (it is written like a custom attribute) *)
ExtraCols(W) == IF NTc(W) = 0 THEN <<>> ELSE <<"min_start">> \o CustomCols(W)
Header(W) == FixedCols \o ExtraCols(W)

CustomCell(W, t, c) ==
    IF \E i \in DOMAIN W.custom[t] : W.custom[t][i].col = c
    THEN W.custom[t][CHOOSE i \in DOMAIN W.custom[t] : W.custom[t][i].col = c].v
    ELSE NoneC

RowOf(W, t) ==
    LET f == W.f[t] IN
    << [k |-> "int", v |-> W.ids[t]], f.name, f.resource, f.start, f.end, f.est, f.spent,
       [k |-> "bool", v |-> f.ms],
       IF W.par[t] = 0 THEN NoneC ELSE [k |-> "int", v |-> W.ids[W.par[t]]],
       [k |-> "ids", v |-> [i \in DOMAIN W.pre[t] |-> W.ids[W.pre[t][i]]]] >>
    \o [i \in DOMAIN ExtraCols(W) |-> IF ExtraCols(W)[i] = "min_start" THEN f.minstart
                                        ELSE CustomCell(W, t, ExtraCols(W)[i])]

Rows(W) == [header |-> Header(W), rows |-> [t \in Tc(W) |-> RowOf(W, t)]]

---------------------------------------------------------------------------
(* reading: one task per row, in row order *)
ColIdx(F, c) == CHOOSE i \in DOMAIN F.header : F.header[i] = c
HasCol(F, c) == \E i \in DOMAIN F.header : F.header[i] = c
CellAt(F, r, c) == F.rows[r][ColIdx(F, c)]
RowOfId(F, i) == CHOOSE r \in DOMAIN F.rows : CellAt(F, r, "id").v = i
KnownId(F, i) == \E r \in DOMAIN F.rows : CellAt(F, r, "id").v = i
SeqOfSet(S) == [i \in 1..Cardinality(S) |-> CHOOSE x \in S : Cardinality({y \in S : y < x}) = i - 1]

Parse(F) ==
    LET R == DOMAIN F.rows
        parOf(r) == LET p == CellAt(F, r, "parent_id")
                    IN  IF p.k = "int" /\ KnownId(F, p.v) THEN RowOfId(F, p.v) ELSE 0
        customCols == SelectSeq(F.header, LAMBDA c : c \notin FixedSet /\ c # "min_start")
    IN  [ids   |-> [r \in R |-> CellAt(F, r, "id").v],
         par   |-> [r \in R |-> parOf(r)],
         kids  |-> [r \in R |-> SeqOfSet({c \in R : parOf(c) = r})],
         roots |-> SeqOfSet({c \in R : parOf(c) = 0}),
         pre   |-> [r \in R |-> LET P == CellAt(F, r, "predecessor_ids").v
                                IN  [i \in DOMAIN P |-> RowOfId(F, P[i])]],
         f     |-> [r \in R |-> [name |-> CellAt(F, r, "name"), resource |-> CellAt(F, r, "resource"),
                                 start |-> CellAt(F, r, "start"), end |-> CellAt(F, r, "end"),
                                 est |-> CellAt(F, r, "estimate"), spent |-> CellAt(F, r, "spent"),
                                 ms |-> CellAt(F, r, "milestone").v,
                                 minstart |-> IF HasCol(F, "min_start") THEN CellAt(F, r, "min_start") ELSE NoneC]],
         custom |-> [r \in R |-> [i \in DOMAIN customCols |-> [col |-> customCols[i], v |-> CellAt(F, r, customCols[i])]]]]

---------------------------------------------------------------------------
(* equivalence of worlds: None ~ empty text; absent custom value ~ empty *)
EmptyLike(c) == c.k = "none" \/ (c.k = "text" /\ c.v = 0)          \* text index 0 is the empty string
SameCell(a, b) ==
    \/ a = b
    \/ EmptyLike(a) /\ EmptyLike(b)
    \/ a.k \in {"int", "num"} /\ b.k \in {"int", "num"} /\
         LET an == IF a.k = "int" THEN a.v ELSE a.n  ad == IF a.k = "int" THEN 1 ELSE a.d
             bn == IF b.k = "int" THEN b.v ELSE b.n  bd == IF b.k = "int" THEN 1 ELSE b.d
         IN  an * bd = bn * ad
CustomOf(W, t, c) == CustomCell(W, t, c)
AllCustomCols(W) == UNION {{W.custom[t][i].col : i \in DOMAIN W.custom[t]} : t \in Tc(W)}
Equiv(A, B) ==
    /\ A.ids = B.ids /\ A.par = B.par /\ A.kids = B.kids /\ A.roots = B.roots /\ A.pre = B.pre
    /\ \A t \in Tc(A) :
          /\ \A fld \in {"name", "resource", "start", "end", "est", "spent", "minstart"} :
                SameCell(A.f[t][fld], B.f[t][fld])
          /\ A.f[t].ms = B.f[t].ms
          /\ \A c \in AllCustomCols(A) \cup AllCustomCols(B) : SameCell(CustomOf(A, t, c), CustomOf(B, t, c))
=============================================================================
