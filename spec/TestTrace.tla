----------------------------- MODULE TestTrace -----------------------------
(***************************************************************************)
(* Judge for the traces of the repository's own tests (recorded by the     *)
(* pytest plugin harness/pytest_trace.py): every public mutator call a     *)
(* test makes is an event over all Task / WBS objects the test creates.    *)
(* The state clauses of C01 C05 C11 are evaluated after EVERY call, and    *)
(* C15 after every call that raised - the tests' own assertions look at    *)
(* one field; the trace is checked as a whole.                             *)
(***************************************************************************)
EXTENDS TaskGraph, Json, IOUtils, TLCExt

Batch == JsonDeserialize(IOEnv.TRACE_FILE)
VARIABLE k
Report(ok, e, clause) == IF ok THEN TRUE ELSE PrintT(<<"FAIL", e.id, clause, e.call>>)

SameT(A, B) == A.par = B.par /\ A.ch = B.ch /\ A.pre = B.pre /\ A.suc = B.suc /\ A.own = B.own

Judge(e) ==
    /\ Report(C01_Forest(e.post),   e, "C01.forest")
    /\ Report(C01_Mirror(e.post),   e, "C01.mirror")
    /\ Report(C01_DagLinks(e.post), e, "C01.dag")
    /\ Report(C01_NoKin(e.post),    e, "C01.nokin")
    /\ Report(C05_UniqueId(e.post), e, "C05.unique")
    /\ Report(C11_Owner(e.post),    e, "C11.owner")
    /\ Report(e.out # "ok" => SameT(e.pre, e.post), e, "C15.unchanged")

Init == k = 1
Next == /\ k <= Len(Batch)
        /\ k' = IF Judge(Batch[k]) THEN k + 1 ELSE k + 1
Done == (k = Len(Batch) + 1) => PrintT(<<"JUDGED", Len(Batch)>>)
Spec == Init /\ [][Next]_k
=============================================================================
