------------------------------- MODULE Render -------------------------------
(***************************************************************************)
(* Renderings (C19) and printed sheets (C20) as abstract documents.        *)
(*                                                                         *)
(* A world is one dated WBS, tasks 1..NT in depth-first order:             *)
(*   W = [ids, par, kids, roots, pre, ext, name, ms, start, end, sec]      *)
(*   pre[t]  : predecessor task numbers (inside the WBS)                   *)
(*   ext[t]  : ids of predecessors OUTSIDE the WBS (sheets mark them)      *)
(*   name[t] : index into the harness's string pool (0 = no name)          *)
(*   start/end: minutes; sec[t]: section index, 0 = no section attribute   *)
(* The specification never looks inside a string.  The harness decodes the *)
(* produced text into entries (using the known pool strings as anchors)    *)
(* and TLC compares entry by entry: every task and dependency exactly      *)
(* once, nothing else ("junk" entries are undecodable lines).              *)
(***************************************************************************)
EXTENDS Naturals, Integers, Sequences, FiniteSets, TLC

NTr(W) == Len(W.ids)
Tr(W)  == 1..NTr(W)
RanR(s) == {s[i] : i \in DOMAIN s}

(* distinct values of a sequence in order of first appearance *)
RECURSIVE Firsts(_, _)
Firsts(s, acc) == IF s = <<>> THEN acc
                  ELSE Firsts(Tail(s), IF Head(s) \in RanR(acc) THEN acc ELSE Append(acc, Head(s)))

---------------------------------------------------------------------------
(* Mermaid Gantt: one task line per task, grouped under sections *)
TaskEntry(W, t) == [kind |-> "task", id |-> W.ids[t], name |-> W.name[t], ms |-> W.ms[t],
                    start |-> W.start[t], end |-> W.end[t], sec |-> 0]
SecEntry(s) == [kind |-> "section", id |-> 0, name |-> 0, ms |-> FALSE, start |-> 0, end |-> 0, sec |-> s]
RECURSIVE Flat(_)
Flat(ss) == IF ss = <<>> THEN <<>> ELSE Head(ss) \o Flat(Tail(ss))
GanttDoc(W) ==
    LET order == [t \in Tr(W) |-> t]
        secs == Firsts([t \in Tr(W) |-> W.sec[t]], <<>>)
    IN  IF Len(secs) <= 1 THEN [t \in Tr(W) |-> TaskEntry(W, t)]
        ELSE Flat([i \in DOMAIN secs |->
                     <<SecEntry(secs[i])>> \o
                     [j \in DOMAIN SelectSeq(order, LAMBDA t : W.sec[t] = secs[i]) |->
                         TaskEntry(W, SelectSeq(order, LAMBDA t : W.sec[t] = secs[i])[j])]])

(* Mermaid network: one Start edge per task without predecessors, one edge per dependency *)
EdgeEntry(W, p, t) == [kind |-> "edge", src |-> IF p = 0 THEN 0 ELSE W.ids[p], srcStart |-> p = 0,
                       srcName |-> IF p = 0 THEN 0 ELSE W.name[p], dst |-> W.ids[t], dstName |-> W.name[t]]
(* an edge from a predecessor OUTSIDE the WBS: the harness names every outside task "outside" (-7) *)
ExtEdge(W, x, t) == [kind |-> "edge", src |-> x, srcStart |-> FALSE, srcName |-> -7, dst |-> W.ids[t], dstName |-> W.name[t]]
NetworkDoc(W) ==
    Flat([t \in Tr(W) |->
            IF W.pre[t] = <<>> /\ W.ext[t] = <<>> THEN <<EdgeEntry(W, 0, t)>>
            ELSE [i \in DOMAIN W.pre[t] |-> EdgeEntry(W, W.pre[t][i], t)]
                 \o [i \in DOMAIN W.ext[t] |-> ExtEdge(W, W.ext[t][i], t)]])

(* DHTMLX: one data entry per task, one uniquely numbered link per dependency *)
DataEntry(W, t) == [id |-> W.ids[t], name |-> W.name[t], ms |-> W.ms[t], start |-> W.start[t], end |-> W.end[t],
                    parent |-> IF W.par[t] = 0 THEN 0 ELSE W.ids[W.par[t]]]
DhtmlxData(W)  == {DataEntry(W, t) : t \in Tr(W)}
LinkPairs(W)   == UNION {{<<W.ids[p], W.ids[t]>> : p \in RanR(W.pre[t])} \cup {<<x, W.ids[t]>> : x \in RanR(W.ext[t])}
                         : t \in Tr(W)}
NumLinks(W)    == Len(Flat([t \in Tr(W) |-> W.pre[t] \o W.ext[t]]))

---------------------------------------------------------------------------
(* sheets: rows of a printed sheet, [t, depth] in depth-first order *)
RECURSIVE SheetRows(_, _, _, _)
SheetRows(W, s, depth, children) ==
    IF s = <<>> THEN <<>>
    ELSE <<[t |-> Head(s), depth |-> depth]>>
         \o (IF children THEN SheetRows(W, W.kids[Head(s)], depth + 1, TRUE) ELSE <<>>)
         \o SheetRows(W, Tail(s), depth, children)
(* the cell of a linked task: its id, or "id(external)" when it lies outside the WBS; the harness *)
(* decodes a link cell into a sequence of [id, external] *)
(* home[t] is the WBS task t belongs to (sheet worlds may spread their top-level subtrees over two WBSs):  *)
(* a link is external exactly when the two tasks of the row's link have different homes                    *)
LinkCell(W, t) == [i \in DOMAIN W.pre[t] |-> [id |-> W.ids[W.pre[t][i]], external |-> W.home[W.pre[t][i]] # W.home[t]]]
                  \o [i \in DOMAIN W.ext[t] |-> [id |-> W.ext[t][i], external |-> TRUE]]
(* the successors cell, as a set (its order is the order in which the links were made) *)
SuccCell(W, t) == {[id |-> W.ids[s], external |-> W.home[s] # W.home[t]] : s \in {x \in Tr(W) : t \in RanR(W.pre[x])}}
=============================================================================
