-------------------------------- MODULE Sched --------------------------------
(***************************************************************************)
(* Vocabulary and properties of pjplan's schedulers (schedule.py).         *)
(*                                                                         *)
(* A CASE is one call of calc on one WBS:                                  *)
(*   input  I : [dir, balance, defEst, pstart, now, tasks, roots,          *)
(*               resources, ext]                                           *)
(*   result R : [out, start, end, est, spent, wstart, wend, rows, ...]     *)
(* tasks[i] = [id, par, kids, pre, res, est, spent, ms, minStart, fstart,  *)
(*             fend]; task numbers 1..NT in depth-first WBS order; numbers *)
(* NT+1.. denote predecessors OUTSIDE the WBS (ext[k] = [start, end]).     *)
(* Amounts are rationals <<n, d>> (Calendar.tla), NoInfo = missing.        *)
(* Times are minutes since the model epoch; -1 = missing.                  *)
(* rows[j] = [r, d, t, u]: the usage ledger in reservation order           *)
(* (resource number, day number, task number, units).                      *)
(*                                                                         *)
(* Every clause of C02 C03 C04 C07 C08 C09 is a named predicate over       *)
(* (I, R); SchedTrace.tla evaluates them on recorded executions,           *)
(* Forward.tla / Backward.tla on the intended algorithms' own results.     *)
(***************************************************************************)
EXTENDS Calendar

Missing == -1

NT(I)      == Len(I.tasks)
Tasks(I)   == 1..NT(I)
IsLeaf(I, t)    == I.tasks[t].kids = <<>>
LeafSet(I)      == {t \in Tasks(I) : IsLeaf(I, t)}
Kids(I, t)      == {I.tasks[t].kids[i] : i \in DOMAIN I.tasks[t].kids}

RECURSIVE AncOf(_, _)
AncOf(I, t) == IF I.tasks[t].par = 0 THEN {} ELSE {I.tasks[t].par} \cup AncOf(I, I.tasks[t].par)
RECURSIVE LeavesOf(_, _)
LeavesOf(I, t) == IF t > NT(I) THEN {t}                     \* an outside task stands for itself
                  ELSE IF IsLeaf(I, t) THEN {t} ELSE UNION {LeavesOf(I, c) : c \in Kids(I, t)}
RECURSIVE DescOf(_, _)
DescOf(I, t) == IF t > NT(I) THEN {} ELSE Kids(I, t) \cup UNION {DescOf(I, c) : c \in Kids(I, t)}

PreOf(I, t)  == {I.tasks[t].pre[i] : i \in DOMAIN I.tasks[t].pre}
SucOf(I, t)  == {s \in Tasks(I) : t \in PreOf(I, s)}
(* predecessors declared on t itself and on every ancestor, expanded to leaves *)
PrereqTasks(I, t)  == UNION {PreOf(I, a) : a \in {t} \cup AncOf(I, t)}
PrereqLeaves(I, t) == UNION {LeavesOf(I, p) : p \in PrereqTasks(I, t)}
SuccTasks(I, t)    == UNION {SucOf(I, a) : a \in {t} \cup AncOf(I, t)}
SuccLeaves(I, t)   == UNION {LeavesOf(I, s) : s \in SuccTasks(I, t)}

(* leaf-level precedence: l waits for m *)
WaitsFor(I, l) == PrereqLeaves(I, l) \cap Tasks(I)
RECURSIVE GrowWait(_, _, _)
GrowWait(I, S, fuel) == LET S2 == S \cup UNION {WaitsFor(I, x) : x \in S}
                        IN  IF S2 = S \/ fuel = 0 THEN S ELSE GrowWait(I, S2, fuel - 1)
CyclicLeaf(I, l)  == l \in GrowWait(I, WaitsFor(I, l), NT(I) + 1)
HasHierarchyCycle(I) == \E l \in LeafSet(I) : CyclicLeaf(I, l)

---------------------------------------------------------------------------
(* amounts *)
RECURSIVE SumQ(_)
SumQ(s) == IF s = <<>> THEN Zero ELSE QAdd(Head(s), SumQ(Tail(s)))
QLeq(a, b) == ~QLess(b, a)
QMax(a, b) == IF QLess(a, b) THEN b ELSE a
OrElse(q, dflt) == IF IsInfo(q) THEN q ELSE dflt

EstOf(I, t)   == OrElse(I.tasks[t].est, I.defEst)
SpentOf(I, t) == OrElse(I.tasks[t].spent, Zero)
Need(I, t)    == LET d == QSub(EstOf(I, t), SpentOf(I, t)) IN IF QNeg(d) THEN Zero ELSE d

ResOf(I, t)   == I.tasks[t].res
Cap(I, r, d)  == ResourceUnits(I.resources[r].expr, Midnight(d))

RowIdx(R)            == DOMAIN R.rows
RowsOfTask(R, t)     == {j \in RowIdx(R) : R.rows[j].t = t}
RowsOn(R, r, d)      == {j \in RowIdx(R) : R.rows[j].r = r /\ R.rows[j].d = d}
RECURSIVE SumRows(_, _)
SumRows(R, J) == IF J = {} THEN Zero
                 ELSE LET j == CHOOSE j \in J : TRUE IN QAdd(R.rows[j].u, SumRows(R, J \ {j}))
Booked(R, r, d)        == SumRows(R, RowsOn(R, r, d))
BookedBy(R, r, d, t)   == SumRows(R, RowsOn(R, r, d) \cap RowsOfTask(R, t))
DaysOfTask(R, t)       == {R.rows[j].d : j \in RowsOfTask(R, t)}
MinOf(S) == CHOOSE x \in S : \A y \in S : x <= y
MaxOf(S) == CHOOSE x \in S : \A y \in S : x >= y
FirstDay(R, t) == MinOf(DaysOfTask(R, t))
LastDay(R, t)  == MaxOf(DaysOfTask(R, t))
FirstRowOf(R, t) == MinOf(RowsOfTask(R, t))
HasRows(R, t)  == RowsOfTask(R, t) # {}

StartFixed(I, t) == I.tasks[t].fstart # Missing
EndFixed(I, t)   == I.tasks[t].fend # Missing
IsMs(I, t)       == I.tasks[t].ms

(* dates of a task number (inside or outside the WBS) *)
EndAt(I, R, p)   == IF p > NT(I) THEN I.ext[p - NT(I)].end   ELSE R.end[p]
StartAt(I, R, p) == IF p > NT(I) THEN I.ext[p - NT(I)].start ELSE R.start[p]

---------------------------------------------------------------------------
(* C02 -- forward: never before prerequisites, project start, min_start, today *)
BoundsOf(I, R, t) ==
    {I.pstart, I.now} \cup (IF I.tasks[t].minStart # Missing THEN {I.tasks[t].minStart} ELSE {})
    \cup {EndAt(I, R, p) : p \in PrereqLeaves(I, t)}
C02_NotBefore(I, R, t) ==                     \* t: leaf, start not fixed, not a milestone
    \A x \in BoundsOf(I, R, t) :
        /\ DayOf(R.start[t]) >= DayOf(x)
        /\ \A j \in RowsOfTask(R, t) : R.rows[j].d >= DayOf(x)
C02_Milestone(I, R, t) ==
    /\ R.start[t] = R.end[t]
    /\ LET P == {EndAt(I, R, p) : p \in PrereqLeaves(I, t)}
       IN  IF P = {} THEN R.start[t] = I.pstart
           ELSE IF MaxOf(P) >= I.pstart THEN R.start[t] = MaxOf(P)
           ELSE R.start[t] \in {MaxOf(P), I.pstart}         \* prerequisites ending before the project: either

---------------------------------------------------------------------------
(* C03 -- no over-allocation (ledger clauses) *)
(* a row that names a task or a resource of another schedule has t = 0 / r = 0 *)
OwnRow(I, R, j) == R.rows[j].t \in Tasks(I) /\ R.rows[j].r \in DOMAIN I.resources
C03_Row(I, R, j) ==
    LET w == R.rows[j] IN
    /\ OwnRow(I, R, j)
    /\ QPos(w.u)
    /\ w.t \in LeafSet(I) /\ w.r = ResOf(I, w.t)
    /\ QPos(Cap(I, w.r, w.d))
C03_Capacity(I, R) ==
    \A j \in RowIdx(R) :
        LET w == R.rows[j] IN
        ~OwnRow(I, R, j) \/
        IF I.balance THEN QLeq(Booked(R, w.r, w.d), Cap(I, w.r, w.d))
                     ELSE QLeq(BookedBy(R, w.r, w.d, w.t), Cap(I, w.r, w.d))

---------------------------------------------------------------------------
(* C04 -- reserved work = remaining work, in agreement with the dates *)
Completed(I, t) == I.dir = "fwd" /\ EndFixed(I, t)
C04_Work(I, R, t) ==                          \* t: leaf, neither milestone nor completed
    /\ QEq(SumRows(R, RowsOfTask(R, t)), Need(I, t))
    /\ \A j, k \in RowsOfTask(R, t) : R.rows[j].d = R.rows[k].d => j = k
    /\ \A j \in RowsOfTask(R, t) :
          /\ DayOf(R.start[t]) <= R.rows[j].d
          /\ Midnight(R.rows[j].d) < R.end[t]
          /\ I.dir = "fwd" => R.rows[j].d >= DayOf(I.now)
C04_Dates(I, R, t) ==                         \* t as above, with rows
    HasRows(R, t) =>
      IF I.dir = "fwd"
      THEN /\ ~StartFixed(I, t) => DayOf(R.start[t]) = FirstDay(R, t)
           /\ Midnight(LastDay(R, t)) < R.end[t] /\ R.end[t] <= Midnight(LastDay(R, t)) + Day
      ELSE /\ Midnight(FirstDay(R, t)) <= R.start[t] /\ R.start[t] < Midnight(FirstDay(R, t)) + Day
C04_NoRows(I, R, t) == ~HasRows(R, t)         \* milestones, completed tasks, summaries
C04_FixedKept(I, R, t) ==                     \* forward, non-milestone leaf
    /\ StartFixed(I, t) => R.start[t] = I.tasks[t].fstart
    /\ EndFixed(I, t)   => R.end[t] = I.tasks[t].fend

---------------------------------------------------------------------------
(* C07 -- start <= end, roll-ups *)
C07_Order(I, R, t)  == R.start[t] # Missing /\ R.end[t] # Missing /\ R.start[t] <= R.end[t]
C07_RollUp(I, R, t) ==                        \* t: summary
    /\ R.start[t] = MinOf({R.start[c] : c \in Kids(I, t)})
    /\ R.end[t]   = MaxOf({R.end[c] : c \in Kids(I, t)})
    /\ QEq(R.est[t],   SumQ([i \in DOMAIN I.tasks[t].kids |-> R.est[I.tasks[t].kids[i]]]))
    /\ QEq(R.spent[t], SumQ([i \in DOMAIN I.tasks[t].kids |-> R.spent[I.tasks[t].kids[i]]]))
C07_Wbs(I, R) ==
    NT(I) > 0 => /\ R.wstart = MinOf({R.start[t] : t \in Tasks(I)})
                 /\ R.wend   = MaxOf({R.end[t] : t \in Tasks(I)})

---------------------------------------------------------------------------
(* C08 -- forward schedules are tight; dates encode used capacity *)
Release(I, R, t) == MaxOf(BoundsOf(I, R, t))
C08_Tight(I, R, t) ==                         \* balance on, leaf, start not fixed, not a milestone
    LET last == IF HasRows(R, t) THEN LastDay(R, t) ELSE DayOf(R.start[t])
    IN  \A d \in DayOf(Release(I, R, t))..(last - 1) :
            QEq(Booked(R, ResOf(I, t), d), Cap(I, ResOf(I, t), d))
(* minutes offset m into the day equals 1440 * booked / cap, exactly *)
Share(m, booked, cap) == QEq(<<m, 1>>, QDiv(QMul(<<Day, 1>>, booked), cap))
BookedBefore(R, r, d, j) == SumRows(R, {i \in RowsOn(R, r, d) : i < j})
BookedUpTo(R, r, d, j)   == SumRows(R, {i \in RowsOn(R, r, d) : i <= j})
RowOfOn(R, t, d) == CHOOSE j \in RowsOfTask(R, t) : R.rows[j].d = d
(* a leaf with nothing to do is placed like any other: on the first day from its release that still has free  *)
(* capacity, at the share of that day booked before it.  Without any dependency link tasks are placed in WBS   *)
(* order, so "before it" is: by the tasks listed earlier (task numbers are WBS order)                           *)
NoLinks(I) == I.ext = <<>> /\ \A u \in Tasks(I) : I.tasks[u].pre = <<>>
C08_ZeroWork(I, R, t) ==                      \* forward, balance on, no links, now <= pstart; t: free leaf, no work
    LET r == ResOf(I, t)  d == DayOf(R.start[t])
        before == SumRows(R, {j \in RowIdx(R) : R.rows[j].r = r /\ R.rows[j].d = d /\ R.rows[j].t < t})
    IN  /\ QPos(Cap(I, r, d))
        /\ Share(R.start[t] - Midnight(d), before, Cap(I, r, d))
C08_Encoding(I, R, t) ==                      \* balance on, now <= pstart, t has rows, start not fixed
    LET r == ResOf(I, t)  f == FirstDay(R, t)  l == LastDay(R, t) IN
    /\ Share(R.start[t] - Midnight(f), BookedBefore(R, r, f, RowOfOn(R, t, f)), Cap(I, r, f))
    /\ Share(R.end[t] - Midnight(l), BookedUpTo(R, r, l, RowOfOn(R, t, l)), Cap(I, r, l))
InNoDependency(I, t) == PrereqTasks(I, t) = {} /\ SuccTasks(I, t) = {}
C08_WbsOrder(I, R) ==                         \* balance on: dependency-free leaves are served in WBS order
    \A a, b \in LeafSet(I) :
        (a < b /\ InNoDependency(I, a) /\ InNoDependency(I, b) /\ ResOf(I, a) = ResOf(I, b))
        => \A i \in RowsOfTask(R, a), j \in RowsOfTask(R, b) : i < j

---------------------------------------------------------------------------
(* C09 -- backward: deadline, dependencies, late packing *)
C09_Deadline(I, R, t) == R.end[t] <= I.pstart            \* pstart holds the requested project END here
C09_Dependency(I, R, p, s) ==                            \* p in PreOf(s), both inside the WBS
    /\ R.end[p] <= R.start[s]
    /\ \A lp \in LeavesOf(I, p), ls \in LeavesOf(I, s) : R.end[lp] <= R.start[ls]
EndDay(x) == IF x % Day = 0 THEN DayOf(x) - 1 ELSE DayOf(x)   \* the day D with end in (Midnight(D), Midnight(D+1)]
Due(I, R, t) == MinOf({I.pstart} \cup {R.start[s] : s \in SuccLeaves(I, t)})
C09_LatePacked(I, R, t) ==                               \* balance on, leaf
    LET r == ResOf(I, t) IN
    /\ \A d \in (EndDay(R.end[t]) + 1)..(DayOf(Due(I, R, t)) - 1) : QEq(Booked(R, r, d), Cap(I, r, d))
    /\ HasRows(R, t) => \A d \in (FirstDay(R, t) + 1)..(LastDay(R, t) - 1) : QEq(Booked(R, r, d), Cap(I, r, d))
C09_Encoding(I, R, t) ==                                 \* balance on, leaf with rows, not a milestone
    LET r == ResOf(I, t)  f == FirstDay(R, t)  D == EndDay(R.end[t]) IN
    /\ Share(Midnight(f + 1) - R.start[t], BookedUpTo(R, r, f, RowOfOn(R, t, f)), Cap(I, r, f))
    /\ QPos(Cap(I, r, D)) =>
          Share(Midnight(D + 1) - R.end[t], SumRows(R, {i \in RowsOn(R, r, D) : i < FirstRowOf(R, t)}), Cap(I, r, D))

---------------------------------------------------------------------------
(* C14 -- inputs that cannot be scheduled *)
ExtMissing(I)  == \E t \in Tasks(I) : \E p \in PreOf(I, t) :
                      p > NT(I) /\ (I.ext[p - NT(I)].start = Missing \/ I.ext[p - NT(I)].end = Missing)
FutureEnd(I)   == I.dir = "fwd" /\ \E t \in Tasks(I) : EndFixed(I, t) /\ I.tasks[t].fend > I.now
(* a needed resource that never offers capacity inside [lo, hi] (days); the harness only builds such *)
(* calendars with NO capacity outside the window either                                              *)
NeedsResource(I, t) == IsLeaf(I, t) /\ ~IsMs(I, t) /\ ~Completed(I, t) /\ QPos(Need(I, t))
DeadResource(I, lo, hi) ==
    \E t \in Tasks(I) : NeedsResource(I, t) /\ I.resources[ResOf(I, t)].never
                        /\ \A d \in lo..hi : ~QPos(Cap(I, ResOf(I, t), d))
Unschedulable(I, lo, hi) == ExtMissing(I) \/ FutureEnd(I) \/ HasHierarchyCycle(I) \/ DeadResource(I, lo, hi)
=============================================================================
