---------------------------- MODULE MC_TaskGraph ----------------------------
(***************************************************************************)
(* The intended design of the mutation API as a closed state machine over  *)
(* the core state, with the complete action alphabet (all argument         *)
(* combinations, legal or not).  A call is refused exactly when every      *)
(* admissible effect would break well-formedness, or when it is a          *)
(* documented refusal (cross-WBS adoption); otherwise one admissible       *)
(* effect is taken.                                                        *)
(*                                                                         *)
(* TLC checks, for small N and W: the properties C01 C05 C11 on every      *)
(* reachable state (on the state as the getters would report it), and the  *)
(* action properties C15 / C16 / C11-reattach of the design.  With         *)
(* EMIT = TRUE every distinct reachable state is printed as JSON so that   *)
(* the harness can compare the design's reachable set with the set reached *)
(* by the real objects.                                                    *)
(***************************************************************************)
EXTENDS TaskGraph, SequencesExt, Json

CONSTANTS L,        \* maximal length of sequence arguments
          LEVEL,    \* 1 core setters, 2 + list facades, 3 + operators
          EMIT      \* print every distinct state

VARIABLES c, last

vars == <<c, last>>

SeqsFrom(S, lo, hi) == UNION {[1..k -> S] : k \in lo..hi}

A(name, n, t, i, seq, before, after, key, rev) ==
    [name |-> name, n |-> n, t |-> t, i |-> i, seq |-> seq, before |-> before, after |-> after,
     key |-> key, rev |-> rev, via |-> 0, seq2 |-> <<>>, seq3 |-> <<>>]

IdPool == {IdOf[t] : t \in Task} \cup {99}

Core1 ==
    {A("SetParent", p, t, 0, <<>>, 0, 0, 0, 0) : p \in 0..N, t \in Task}
    \cup {A("SetChildren", n, 0, 0, s, 0, 0, 0, 0) : n \in Node, s \in SeqsFrom(Task, 0, L)}
    \cup {A("SetPreds", 0, t, 0, s, 0, 0, 0, 0) : t \in Task, s \in SeqsFrom(Task, 0, L)}
    \cup {A("SetSuccs", 0, t, 0, s, 0, 0, 0, 0) : t \in Task, s \in SeqsFrom(Task, 0, L)}
    \cup {A("WbsRemove", Root(w), t, 0, <<>>, 0, 0, 0, 0) : w \in Wbs, t \in Task}

Facade2 ==
    {A("ChAppend", n, t, 0, <<>>, 0, 0, 0, 0) : n \in Node, t \in Task}
    \cup {A("ChRemove", n, t, 0, <<>>, 0, 0, 0, 0) : n \in Node, t \in Task}
    \cup {A("ChInsert", n, t, i, <<>>, 0, 0, 0, 0) : n \in Node, t \in Task, i \in 0..2}
    \cup {A("ChMove", n, 0, 0, s, b, 0, 0, 0) : n \in Node, s \in SeqsFrom(Task, 1, 2), b \in Task}
    \cup {A("ChMove", n, 0, 0, s, 0, b, 0, 0) : n \in Node, s \in SeqsFrom(Task, 1, 2), b \in Task}
    \cup {A("ChMove", n, 0, 0, <<t>>, 0, 0, 0, 0) : n \in Node, t \in Task}
    \cup {A("ChMove", n, 0, 0, <<t>>, (t % N) + 1, t, 0, 0) : n \in Node, t \in Task}
    \cup {A("ChMove", n, 0, 0, <<t>>, (t % N) + 1, ((t + 1) % N) + 1, 0, 0) : n \in Node, t \in Task}
    \cup {A("ChSort", n, 0, 0, <<>>, 0, 0, k, r) : n \in Node, k \in 1..3, r \in 0..1}
    \cup {A("ChReorder", n, 0, 0, s, 0, 0, 0, 0) : n \in Node, s \in SeqsFrom(IdPool, 0, 2)}
    \cup {A("ChRemoveAll", n, 0, 0, <<>>, 0, 0, k, 0) : n \in Node, k \in {0, 1, 2, 4}}
    \cup {A(nm, x, t, 0, <<>>, 0, 0, 0, 0) :
             nm \in {"PredAppend", "PredRemove", "SuccAppend", "SuccRemove"}, x \in Task, t \in Task}

Ops3 ==
    {A("FloorDiv", n, 0, 0, s, 0, 0, 0, 0) : n \in Node, s \in SeqsFrom(Task, 1, 2)}
    \cup {A(nm, 0, t, 0, s, 0, 0, 0, 0) : nm \in {"LShift", "RShift"}, t \in Task, s \in SeqsFrom(Task, 1, 2)}
    \cup {A(nm, n, 0, 0, s, 0, 0, 0, 0) : nm \in {"ListLShift", "ListRShift"}, n \in Node,
                                           s \in SeqsFrom(Task, 1, 1)}
    \cup {A("SetChildrenOne", n, t, 0, <<>>, 0, 0, 0, 0) : n \in Node, t \in Task}
    \cup {A("SetChildrenFrom", n, m, 0, <<>>, 0, 0, 1, 0) : n \in Node, m \in Node}
    \cup {A("SetChildrenFrom", n, m, 0, <<>>, 0, 0, 2, 0) : n \in Node, m \in Task}
    \cup {A("SetPredsFrom", n, m, 0, <<>>, 0, 0, 1, 0) : n \in Task, m \in Node}
    \cup {A("SetPredsFrom", n, m, 0, <<>>, 0, 0, 2, 0) : n \in Task, m \in Task}
    \cup {A("SetSuccsFrom", n, m, 0, <<>>, 0, 0, k, 0) : n \in Task, m \in Task, k \in 2..3}
    \cup {A("BulkParent", n, p, 0, <<>>, 0, 0, 0, 0) : n \in Node, p \in 0..N}
    \cup {A("BulkPreds", n, 0, 0, s, 0, 0, 0, 0) : n \in Node, s \in SeqsFrom(Task, 0, 1)}

Actions == Core1 \cup (IF LEVEL >= 2 THEN Facade2 ELSE {}) \cup (IF LEVEL >= 3 THEN Ops3 ELSE {})

Init == /\ c = [ch |-> [n \in Node |-> <<>>], pre |-> [t \in Task |-> {}]]
        /\ last = [name |-> "init", out |-> "ok"]

Step(a) ==
    LET good == GoodEffects(c, a)
    IN  IF good = {} \/ CrossWbs(c, a)
        THEN /\ c' = c
             /\ last' = [name |-> a.name, out |-> "RuntimeError"]
        ELSE /\ c' \in good
             /\ last' = [name |-> a.name, out |-> "ok"]

Next == \E a \in Actions : Step(a)
Spec == Init /\ [][Next]_vars

View == c        \* `last' is an observation, it must not multiply states

---------------------------------------------------------------------------
(* what the getters would report in core state c (link lists in some order) *)
Reported(s) == [par |-> DerivedPar(s), ch |-> s.ch,
                pre |-> [t \in Task |-> SetToSeq(s.pre[t])],
                suc |-> [t \in Task |-> SetToSeq(DerivedSuc(s)[t])],
                own |-> DerivedOwn(s)]

Inv_C01_Forest   == C01_Forest(Reported(c))
Inv_C01_Mirror   == C01_Mirror(Reported(c))
Inv_C01_DagLinks == C01_DagLinks(Reported(c))
Inv_C01_NoKin    == C01_NoKin(Reported(c))
Inv_C05_UniqueId == C05_UniqueId(Reported(c))
Inv_C11_Owner    == C11_Owner(Reported(c))
Inv_Core         == InvCore(c)

(* lookup and listing are functions of the state: unique answer for every id *)
Inv_C05_Lookup ==
    \A w \in Wbs : \A i \in IdPool : Cardinality({t \in Members(c.ch, w) : IdOf[t] = i}) <= 1
Inv_C05_TasksOnce ==
    \A w \in Wbs : LET s == TasksOf(c.ch, w) IN NoDup(s) /\ Ran(s) = Members(c.ch, w)

(* C15: a refused call changes nothing (design level) *)
Act_C15 == [][last'.out # "ok" => c' = c]_vars
(* C11: a detached tree can always be re-attached unless ids clash / links forbid it; and the   *)
(* design never gets stuck with a stale owner: owner is a function of the children lists        *)
Act_C11 == [][\A t \in Task : OwnOf(c'.ch, t) = DerivedOwn(c')[t]]_vars

Emit == EMIT => PrintT(<<"STATE", ToJson([ch |-> c.ch, pre |-> [t \in Task |-> SetToSeq(c.pre[t])]])>>)
=============================================================================
