----------------------------- MODULE CopyTrace -----------------------------
(***************************************************************************)
(* C10: WBS.clone() and WBS.subtree(roots), judged on recorded calls.      *)
(*                                                                         *)
(* Event: [id, pre, act, out, post, copy, indep]                           *)
(*   pre/post : projected universe (TaskGraph) before/after the call       *)
(*   act      : [name |-> "Clone" | "Subtree", w, seq]  (seq: the roots)   *)
(*              or [name |-> "Flat", w, seq]: WBS(tasks = seq), see below   *)
(*   copy     : the returned WBS as the getters report it; task j of the    *)
(*              copy (depth-first numbering) has                           *)
(*                src[j]  : the source task with the same id (0 = none)     *)
(*                kids[j] : copy numbers of its children, roots likewise    *)
(*                pre[j], suc[j] : links; s > 0 = the copy of source task   *)
(*                         s, -u = the universe task u ITSELF, 0 = unknown  *)
(*                own[j]  : reports the new WBS as owner                    *)
(*                fresh[j]: is a new object; same[j]: equal field values    *)
(*              wattr: WBS-level attributes carried over; sep: new WBS      *)
(*              object; mirror: every outside task lists the copy back      *)
(*   indep    : after each later mutation of one side, is the other side's *)
(*              projection unchanged?                                       *)
(***************************************************************************)
EXTENDS TaskGraph, Json, IOUtils, TLCExt

Batch == JsonDeserialize(IOEnv.TRACE_FILE)
VARIABLE k
Report(ok, e, clause, detail) == IF ok THEN TRUE ELSE PrintT(<<"FAIL", e.id, clause, detail>>)

Sel(c, a) == IF a.name = "Clone" THEN Members(c.ch, a.w)
             ELSE UNION {Subtree(c.ch, r) : r \in Ran(a.seq)}
(* the given roots are distinct and none lies below another: the documented case *)
PlainRoots(c, a) == a.name = "Clone" \/
    (NoDup(a.seq) /\ \A r1, r2 \in Ran(a.seq) : r1 # r2 => r1 \notin Below(c.ch, r2))
RootsExp(c, a) == IF a.name = "Clone" THEN c.ch[Root(a.w)] ELSE a.seq

SameUniverse(A, B) ==
    /\ A.par = B.par /\ A.ch = B.ch /\ A.own = B.own /\ A.attr = B.attr
    /\ \A t \in Task : Ran(A.pre[t]) = Ran(B.pre[t]) /\ Ran(A.suc[t]) = Ran(B.suc[t])

(***************************************************************************)
(* The constructor form WBS(tasks = seq), seq any tasks of the universe    *)
(* (attached anywhere or nowhere, repeated, of several trees): the new WBS  *)
(* has one root per element of seq, in that order, each a new object with   *)
(* the id and field values of the element and nothing else - no children,   *)
(* no links, the new WBS as owner; the universe is untouched. Two elements  *)
(* with one id (the same task twice included) cannot be roots of one WBS:   *)
(* the call is refused. No listed property states this; differences are     *)
(* reported under DRIFT.* and never count as violations.                    *)
(***************************************************************************)
FlatOk(a) == \A i, j \in DOMAIN a.seq : IdOf[a.seq[i]] = IdOf[a.seq[j]] => i = j
JudgeFlat(e) ==
    LET a == e.act
        C == e.copy
        J == DOMAIN C.src
    IN
    /\ Report((e.out = "ok") <=> FlatOk(a), e, "DRIFT.flat.outcome", e.out)
    /\ Report(SameUniverse(e.pre, e.post), e, "DRIFT.flat.source", 0)
    /\ \A i \in DOMAIN e.indep : Report(e.indep[i], e, "DRIFT.flat.independent", i)
    /\ e.out = "ok" =>
       /\ Report(C.src = a.seq, e, "DRIFT.flat.members", C.src)
       /\ Report(C.roots = [i \in J |-> i], e, "DRIFT.flat.roots", C.roots)
       /\ Report(\A j \in J : C.kids[j] = <<>> /\ C.pre[j] = <<>> /\ C.suc[j] = <<>>, e, "DRIFT.flat.bare", 0)
       /\ Report(\A j \in J : C.fresh[j] /\ C.own[j] /\ C.same[j], e, "DRIFT.flat.tasks", 0)
       /\ Report(C.sep, e, "DRIFT.flat.wbs", 0)

JudgeCopy(e) ==
    LET c == Core(e.pre)
        a == e.act
        C == e.copy
        J == DOMAIN C.src
        S == Sel(c, a)
        suc == DerivedSuc(c)
        ExpLinks(L, j) == (L[C.src[j]] \cap S) \cup {-p : p \in {x \in L[C.src[j]] : OwnOf(c.ch, x) # a.w}}
    IN
    /\ Report(e.out = "ok", e, "C10.outcome", e.out)
    /\ Report(SameUniverse(e.pre, e.post), e, "C10.source", 0)
    /\ \A i \in DOMAIN e.indep : Report(e.indep[i], e, "C10.independent", i)
    /\ e.out = "ok" =>
       /\ Report({C.src[j] : j \in J} = S /\ \A i, j \in J : C.src[i] = C.src[j] => i = j, e, "C10.members", S)
       /\ Report(\A j \in J : C.fresh[j], e, "C10.fresh", 0)
       /\ Report(\A j \in J : C.own[j], e, "C10.owner", 0)
       /\ Report(\A j \in J : C.same[j], e, "C10.fields", 0)
       /\ Report(C.wattr /\ C.sep, e, "C10.wbs", 0)
       /\ ({C.src[j] : j \in J} = S) =>
          /\ PlainRoots(c, a) =>
               /\ Report([i \in DOMAIN C.roots |-> C.src[C.roots[i]]] = RootsExp(c, a), e, "C10.roots", 0)
               /\ Report(\A j \in J : [i \in DOMAIN C.kids[j] |-> C.src[C.kids[j][i]]] = c.ch[C.src[j]],
                         e, "C10.hierarchy", 0)
          /\ Report(\A j \in J : Ran(C.pre[j]) = ExpLinks(c.pre, j), e, "C10.predecessors", 0)
          /\ Report(\A j \in J : Ran(C.suc[j]) = ExpLinks(suc, j), e, "C10.successors", 0)
          /\ Report(C.mirror, e, "C10.mirror", 0)

Judge(e) == IF e.act.name = "Flat" THEN JudgeFlat(e) ELSE JudgeCopy(e)

Init == k = 1
Next == /\ k <= Len(Batch)
        /\ k' = IF Judge(Batch[k]) THEN k + 1 ELSE k + 1
Done == (k = Len(Batch) + 1) => PrintT(<<"JUDGED", Len(Batch)>>)
Spec == Init /\ [][Next]_k
=============================================================================
