------------------------------ MODULE Backward ------------------------------
(***************************************************************************)
(* The backward scheduler as a deterministic state machine (mirror image   *)
(* of Forward.tla): roots and children in reverse order, successors (own   *)
(* and inherited) first, one action per ledger row.                        *)
(*                                                                         *)
(* Placement of a leaf with deadline `due` (earliest start among its own   *)
(* and inherited successors, else the requested project end):              *)
(*   - D = the latest day strictly before the DATE of `due` that has       *)
(*     capacity and then free capacity (whole-day steps);                  *)
(*   - end = Midnight(D+1) - 24h * used(D)/cap(D);                         *)
(*   - work is reserved on the days strictly before the DATE of min(end,   *)
(*     due), going backwards (the rule of the code, which C09's wording    *)
(*     accommodates: the end's own day is not used by the task);           *)
(*   - start = Midnight(first+1) - 24h * used(first)/cap(first).           *)
(* In this module inp.pstart holds the requested project END.              *)
(***************************************************************************)
EXTENDS Sched

CONSTANT HORIZON

VARIABLES inp, todo, done, R, out
bvars == <<inp, todo, done, R, out>>

RECURSIVE AncSeqB(_, _)
AncSeqB(I, t) == IF I.tasks[t].par = 0 THEN <<>> ELSE <<I.tasks[t].par>> \o AncSeqB(I, I.tasks[t].par)
SucSeq(I, t) == LET S == SucOf(I, t)
                IN  [i \in 1..Cardinality(S) |-> CHOOSE x \in S : Cardinality({y \in S : y < x}) = i - 1]
RECURSIVE CatSuc(_, _)
CatSuc(I, ts) == IF ts = <<>> THEN <<>> ELSE SucSeq(I, Head(ts)) \o CatSuc(I, Tail(ts))
SuccSeqAll(I, t) == CatSuc(I, <<t>> \o AncSeqB(I, t))
RevSeq(s) == [i \in DOMAIN s |-> s[Len(s) + 1 - i]]

BookedInB(rows, rs, d) == SumRows([rows |-> rows], {j \in DOMAIN rows : rows[j].r = rs /\ rows[j].d = d})
BookedByInB(rows, rs, d, t) == SumRows([rows |-> rows], {j \in DOMAIN rows : rows[j].r = rs /\ rows[j].d = d /\ rows[j].t = t})
UsedForB(I, rows, t, d) == IF I.balance THEN BookedInB(rows, ResOf(I, t), d) ELSE BookedByInB(rows, ResOf(I, t), d, t)
FreeForB(I, rows, t, d) == QSub(Cap(I, ResOf(I, t), d), UsedForB(I, rows, t, d))
ShareMinB(booked, cap) == LET q == QDiv(QMul(<<Day, 1>>, booked), cap) IN q[1] \div q[2]

InitRB(I) ==
    [start |-> [t \in Tasks(I) |-> Missing], end |-> [t \in Tasks(I) |-> Missing],
     est   |-> [t \in Tasks(I) |-> IF IsLeaf(I, t) THEN I.tasks[t].est ELSE NoInfo],
     spent |-> [t \in Tasks(I) |-> IF IsLeaf(I, t) THEN I.tasks[t].spent ELSE NoInfo],
     rows  |-> <<>>]
PreflightB(I) == ExtMissing(I) \/ HasHierarchyCycle(I)
InitTodoB(I) == IF PreflightB(I) THEN <<>> ELSE [i \in DOMAIN I.roots |-> <<"visit", RevSeq(I.roots)[i]>>]
InitOutB(I)  == IF PreflightB(I) THEN "fail" ELSE "run"
StartB(I) == inp = I /\ done = {} /\ R = InitRB(I) /\ todo = InitTodoB(I) /\ out = InitOutB(I)

TopB == Head(todo)
RestB == Tail(todo)

VisitB ==
    /\ out = "run" /\ todo # <<>> /\ TopB[1] = "visit"
    /\ LET t == TopB[2] IN
       IF t \in done
       THEN todo' = RestB
       ELSE todo' = [i \in DOMAIN SuccSeqAll(inp, t) |-> <<"visit", SuccSeqAll(inp, t)[i]>>]
                    \o [i \in DOMAIN inp.tasks[t].kids |-> <<"visit", RevSeq(inp.tasks[t].kids)[i]>>]
                    \o <<<<"place", t>>>> \o RestB
    /\ UNCHANGED <<inp, done, R, out>>

LastDayWith(d0, P(_)) == LET S == {d \in (d0 - HORIZON)..d0 : P(d)} IN IF S = {} THEN -1 ELSE MaxOf(S)
DueOf(I, r, t) == MinOf({I.pstart} \cup {r.start[s] : s \in SuccTasks(I, t)})
(* the calendar date an instant lies on; the search starts on the day before it *)
DateOf(x) == DayOf(x)

PlaceB ==
    /\ out = "run" /\ todo # <<>> /\ TopB[1] = "place"
    /\ LET t == TopB[2]  I == inp  due == DueOf(inp, R, TopB[2]) IN
       IF ~IsLeaf(I, t)
       THEN /\ R' = [R EXCEPT !.start[t] = MinOf({R.start[c] : c \in Kids(I, t)}),
                              !.end[t]   = MaxOf({R.end[c] : c \in Kids(I, t)}),
                              !.est[t]   = SumQ([i \in DOMAIN I.tasks[t].kids |-> R.est[I.tasks[t].kids[i]]]),
                              !.spent[t] = SumQ([i \in DOMAIN I.tasks[t].kids |-> R.spent[I.tasks[t].kids[i]]])]
            /\ done' = done \cup {t} /\ todo' = RestB /\ UNCHANGED <<inp, out>>
       ELSE IF IsMs(I, t)
       THEN /\ R' = [R EXCEPT !.start[t] = due, !.end[t] = due, !.est[t] = Zero, !.spent[t] = Zero]
            /\ done' = done \cup {t} /\ todo' = RestB /\ UNCHANGED <<inp, out>>
       ELSE LET est1 == OrElse(R.est[t], I.defEst)
                sp1  == OrElse(R.spent[t], Zero)
                left == LET d == QSub(est1, sp1) IN IF QNeg(d) THEN Zero ELSE d
                dcap == LastDayWith(DateOf(due) - 1, LAMBDA d : QPos(Cap(I, ResOf(I, t), d)))
                D    == IF dcap = -1 THEN -1 ELSE LastDayWith(dcap, LAMBDA d : QPos(FreeForB(I, R.rows, t, d)))
                en   == Midnight(D + 1) - ShareMinB(UsedForB(I, R.rows, t, D), Cap(I, ResOf(I, t), D))
                eff  == MinOf({en, due})
                R1   == [R EXCEPT !.end[t] = en, !.est[t] = est1, !.spent[t] = sp1]
            IN
            IF dcap = -1 \/ D = -1
            THEN out' = "fail" /\ todo' = <<>> /\ UNCHANGED <<inp, done, R>>
            ELSE IF QZero(left)
            THEN /\ R' = [R1 EXCEPT !.start[t] = eff]
                 /\ done' = done \cup {t} /\ todo' = RestB /\ UNCHANGED <<inp, out>>
            ELSE /\ R' = R1
                 /\ todo' = <<<<"reserve", t, DateOf(eff) - 1, left, 0>>>> \o RestB
                 /\ UNCHANGED <<inp, done, out>>

ReserveB ==
    /\ out = "run" /\ todo # <<>> /\ TopB[1] = "reserve"
    /\ LET t == TopB[2]  d == TopB[3]  left == TopB[4]  tries == TopB[5]
           I == inp  r == ResOf(inp, TopB[2])
           free == FreeForB(I, R.rows, t, d)
       IN
       IF tries > HORIZON
       THEN out' = "fail" /\ todo' = <<>> /\ UNCHANGED <<inp, done, R>>
       ELSE IF ~QPos(free)
       THEN todo' = <<<<"reserve", t, d - 1, left, tries + 1>>>> \o RestB /\ UNCHANGED <<inp, done, R, out>>
       ELSE LET u == IF QLess(left, free) THEN left ELSE free
                rows1 == Append(R.rows, [r |-> r, d |-> d, t |-> t, u |-> u])
                left1 == QSub(left, u)
            IN
            IF QPos(left1)
            THEN /\ R' = [R EXCEPT !.rows = rows1]
                 /\ todo' = <<<<"reserve", t, d - 1, left1, tries + 1>>>> \o RestB
                 /\ UNCHANGED <<inp, done, out>>
            ELSE /\ R' = [R EXCEPT !.rows = rows1,
                                   !.start[t] = Midnight(d + 1) - ShareMinB(UsedForB(I, rows1, t, d), Cap(I, r, d))]
                 /\ done' = done \cup {t} /\ todo' = RestB /\ UNCHANGED <<inp, out>>

FinishB == out = "run" /\ todo = <<>> /\ out' = "ok" /\ UNCHANGED <<inp, todo, done, R>>

StepB == VisitB \/ PlaceB \/ ReserveB \/ FinishB

ResultB ==
    [out |-> out, start |-> R.start, end |-> R.end, est |-> R.est, spent |-> R.spent, rows |-> R.rows,
     wstart |-> IF NT(inp) = 0 THEN Missing ELSE MinOf({R.start[t] : t \in Tasks(inp)}),
     wend   |-> IF NT(inp) = 0 THEN Missing ELSE MaxOf({R.end[t] : t \in Tasks(inp)})]

AllBackwardClauses(I, X) ==
    /\ \A t \in Tasks(I) :
        /\ (IsLeaf(I, t) /\ ~IsMs(I, t)) => C04_Work(I, X, t) /\ C04_Dates(I, X, t)
        /\ ~(IsLeaf(I, t) /\ ~IsMs(I, t)) => C04_NoRows(I, X, t)
        /\ C07_Order(I, X, t)
        /\ ~IsLeaf(I, t) => C07_RollUp(I, X, t)
        /\ C09_Deadline(I, X, t)
        /\ \A p \in PreOf(I, t) \cap Tasks(I) : C09_Dependency(I, X, p, t)
        /\ (I.balance /\ IsLeaf(I, t)) => C09_LatePacked(I, X, t)
        /\ (I.balance /\ IsLeaf(I, t) /\ ~IsMs(I, t) /\ HasRows(X, t)) => C09_Encoding(I, X, t)
    /\ C07_Wbs(I, X)
    /\ \A j \in RowIdx(X) : C03_Row(I, X, j)
    /\ C03_Capacity(I, X)
=============================================================================
