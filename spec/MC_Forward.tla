----------------------------- MODULE MC_Forward -----------------------------
(***************************************************************************)
(* Bounded model check of the forward scheduler design (Forward.tla).      *)
(* Every input of the bounded family is one initial state: forest shapes   *)
(* of N tasks, dependency links on leaves and summaries (including         *)
(* hierarchy-closed cycles), missing / zero / small / multi-day estimates, *)
(* a milestone, min_start, a user-fixed start in the past, two resources   *)
(* with different calendars (or a dead one), both balance settings, two    *)
(* project starts (Monday 00:00, Wednesday 09:00) and three clock values.  *)
(***************************************************************************)
EXTENDS Forward

CONSTANTS N, MAXLINKS, DEAD,    \* DEAD: TRUE = resource 2 never has capacity
          ESTS, DEFESTS, FREERES     \* pools: estimates, default estimates; FREERES: every task picks its resource

T == 1..N
Shapes == {p \in [T -> 0..(N - 1)] : \A i \in T : p[i] < i /\ (p[i] # 0 => \A j \in (p[i] + 1)..(i - 1) : p[j] >= p[i])}
SeqOf(S) == [i \in 1..Cardinality(S) |-> CHOOSE x \in S : Cardinality({y \in S : y < x}) = i - 1]
RECURSIVE AncV(_, _)
AncV(p, t) == IF p[t] = 0 THEN {} ELSE {p[t]} \cup AncV(p, p[t])
Pairs(p) == {e \in T \X T : e[1] # e[2] /\ e[1] \notin AncV(p, e[2]) /\ e[2] \notin AncV(p, e[1])}
Acyclic(L) == ~\E e \in L : <<e[2], e[1]>> \in L         \* the API refuses direct 2-cycles (longer ones need N > 3)
LinkSets(p) == {S \in SUBSET Pairs(p) : Cardinality(S) <= MAXLINKS /\ Acyclic(S)}

Wk8  == [k |-> "weekly", form |-> "list", days |-> <<0, 1, 2, 3, 4>>, u |-> <<8, 1>>, us |-> <<>>,
         hs |-> FALSE, s |-> 0, he |-> FALSE, e |-> 0]
Mwf4 == [k |-> "weekly", form |-> "list", days |-> <<0, 2, 4>>, u |-> <<4, 1>>, us |-> <<>>,
         hs |-> FALSE, s |-> 0, he |-> FALSE, e |-> 0]
Zero7 == [k |-> "weekly", form |-> "list", days |-> <<>>, u |-> <<1, 1>>, us |-> <<>>,
          hs |-> FALSE, s |-> 0, he |-> FALSE, e |-> 0]
Ests == ESTS
ResMaps == IF FREERES THEN [T -> 1..2] ELSE {[t \in T |-> 1 + (t % 2)]}
PStarts == {7 * Day, 9 * Day + 540}

Mk(p, L, est, res, ms, mn, fx, bal, ps, nw, de) ==
    [dir |-> "fwd", balance |-> bal, defEst |-> de, pstart |-> ps, now |-> nw,
     tasks |-> [t \in T |->
        [id |-> 10 * t, par |-> p[t], kids |-> SeqOf({c \in T : p[c] = t}),
         pre |-> SeqOf({e[2] : e \in {x \in L : x[1] = t}}),
         res |-> res[t], est |-> est[t], spent |-> IF t = 2 THEN <<1, 1>> ELSE NoInfo,
         ms |-> (ms = t), minStart |-> IF mn = t THEN ps + 2 * Day + 600 ELSE Missing,
         fstart |-> IF fx = t /\ ms # t THEN ps - 2 * Day ELSE Missing, fend |-> Missing]],
     roots |-> SeqOf({c \in T : p[c] = 0}),
     resources |-> <<[expr |-> Wk8, never |-> FALSE], [expr |-> IF DEAD THEN Zero7 ELSE Mwf4, never |-> DEAD]>>,
     ext |-> <<>>, tod |-> FALSE]

Init == \E p \in Shapes : \E L \in LinkSets(p) : \E est \in [T -> Ests] : \E res \in ResMaps :
        \E ms \in 0..N : \E mn \in 0..1 : \E fx \in {0, N} : \E bal \in BOOLEAN : \E ps \in PStarts :
        \E nw \in {ps - 3 * Day - 7, ps, ps + Day + 61} : \E de \in DEFESTS :
           Start(Mk(p, L, est, res, IF ms > 0 /\ \E c \in T : p[c] = ms THEN 0 ELSE ms, mn, fx, bal, ps, nw, de))

Spec == Init /\ [][Step]_fvars /\ WF_fvars(Step)

Terminates == <>(out # "run")
OkMeansClauses == out = "ok" => AllForwardClauses(inp, Result)
OkMeansSchedulable == out = "ok" => ~Unschedulable(inp, 0, 40)
FailHasReason == out = "fail" => (Preflight(inp) \/ (DEAD /\ \E t \in LeafSet(inp) : ~IsMs(inp, t) /\ ResOf(inp, t) = 2))
(* with the clock not later than the project start no decision of the machine reads the clock:   *)
(* checked as "the result equals the result for the earliest clock" by comparing terminal states *)
Dated == out = "ok" => \A t \in Tasks(inp) : R.start[t] # Missing /\ R.end[t] # Missing
=============================================================================
