----------------------------- MODULE TaskGraph -----------------------------
(***************************************************************************)
(* The mutable task graph of pjplan (task.py, wbs.py) as a state machine.  *)
(*                                                                         *)
(* Objects: N task objects (ids NOT necessarily distinct) and W WBS        *)
(* objects.  Node numbers: tasks 1..N, the hidden root of WBS w is N+w.    *)
(*                                                                         *)
(* Two views of the state are used:                                        *)
(*   - the PROJECTED state G = [par, ch, pre, suc, own, attr] is what the  *)
(*     public getters of the implementation report; both ends of every     *)
(*     relation are recorded independently.  The properties C01 C05 C11    *)
(*     are predicates over G.                                              *)
(*   - the CORE state c = [ch, pre] holds each relation once (children     *)
(*     lists of every node, predecessor SETS of every task).  The intended *)
(*     design is a state machine over the core; Full(c) derives the other  *)
(*     fields.  Effects(c, a) is the set of admissible results of action a *)
(*     (a set, because the documentation leaves a few orders open).        *)
(*                                                                         *)
(* The same definitions serve exploration (MC_TaskGraph) and judging of    *)
(* transitions recorded from the implementation (TaskGraphTrace).          *)
(***************************************************************************)
EXTENDS Naturals, Integers, Sequences, FiniteSets, TLC

CONSTANTS N,       \* number of task objects
          W,       \* number of WBS objects
          IdOf,    \* IdOf[t] = id of task object t
          Prio     \* Prio[t] = value of the sort attribute of t (ties possible)

Task    == 1..N
Wbs     == 1..W
Root(w) == N + w
Roots   == {Root(w) : w \in Wbs}
Node    == 1..(N + W)

---------------------------------------------------------------------------
(* sequences *)
Ran(s)        == {s[i] : i \in DOMAIN s}
Count(s, x)   == Cardinality({i \in DOMAIN s : s[i] = x})
Without(s, S) == SelectSeq(s, LAMBDA x : x \notin S)
IndexOf(s, x) == CHOOSE i \in DOMAIN s : s[i] = x
NoDup(s)      == \A i, j \in DOMAIN s : s[i] = s[j] => i = j
(* (by position: the elements may be ids, of which 0 is one) *)
DedupFirst(s) == LET keep == SelectSeq([i \in DOMAIN s |-> i], LAMBDA i : ~\E j \in 1..(i-1) : s[j] = s[i])
                 IN  [k \in DOMAIN keep |-> s[keep[k]]]
DedupLast(s)  == LET keep == SelectSeq([i \in DOMAIN s |-> i], LAMBDA i : ~\E j \in (i+1)..Len(s) : s[j] = s[i])
                 IN  [k \in DOMAIN keep |-> s[keep[k]]]
Rev(s)        == [i \in DOMAIN s |-> s[Len(s) + 1 - i]]
InsAt(s, k, x) == SubSeq(s, 1, k) \o <<x>> \o SubSeq(s, k + 1, Len(s))   \* x lands at 0-based index k
InsSeqAt(s, k, xs) == SubSeq(s, 1, k) \o xs \o SubSeq(s, k + 1, Len(s))
Perms(s)      == LET n == Len(s)
                     B == {f \in [1..n -> 1..n] : \A i, j \in 1..n : f[i] = f[j] => i = j}
                 IN  {[i \in 1..n |-> s[f[i]]] : f \in B}

---------------------------------------------------------------------------
(* reachability over children lists; `fuel` keeps the operators total on   *)
(* ill-formed graphs recorded from a faulty implementation                 *)
RECURSIVE Grow(_, _, _)
Grow(ch, S, fuel) ==
    LET S2 == S \cup UNION {Ran(ch[x]) \cap Task : x \in S \cap Node}
    IN  IF S2 = S \/ fuel = 0 THEN S ELSE Grow(ch, S2, fuel - 1)

Below(ch, n)   == Grow(ch, Ran(ch[n]) \cap Task, N + 1)      \* proper descendants of node n
Subtree(ch, t) == {t} \cup Below(ch, t)
Members(ch, w) == Below(ch, Root(w))
OwnOf(ch, t)   == IF \E w \in Wbs : t \in Members(ch, w)
                  THEN CHOOSE w \in Wbs : t \in Members(ch, w) ELSE 0
OwnOfNode(ch, n) == IF n \in Roots THEN n - N ELSE OwnOf(ch, n)
Holders(ch, t) == {n \in Node : t \in Ran(ch[n])}
ParOf(ch, t)   == IF \E n \in Task : t \in Ran(ch[n]) THEN CHOOSE n \in Task : t \in Ran(ch[n]) ELSE 0
Occ(ch, S, t)  == Cardinality({p \in UNION {{<<n, i>> : i \in DOMAIN ch[n]} : n \in S} : ch[p[1]][p[2]] = t})

RECURSIVE GrowUp(_, _, _)
GrowUp(par, S, fuel) ==
    LET S2 == S \cup ({par[x] : x \in S \cap Task} \ {0})
    IN  IF S2 = S \/ fuel = 0 THEN S ELSE GrowUp(par, S2, fuel - 1)
Anc(par, t) == GrowUp(par, {par[t]} \ {0}, N + 1)            \* proper ancestors as REPORTED by parent

RECURSIVE GrowPre(_, _, _)
GrowPre(pre, S, fuel) ==
    LET S2 == S \cup UNION {pre[x] : x \in S \cap Task}
    IN  IF S2 = S \/ fuel = 0 THEN S ELSE GrowPre(pre, S2, fuel - 1)
AllPre(pre, t) == GrowPre(pre, pre[t], N + 1)                \* transitive predecessors (pre: Task -> SUBSET)

RECURSIVE Dfs(_, _, _)
Dfs(ch, s, fuel) ==                                         \* depth-first flattening of the task sequence s
    IF s = <<>> \/ fuel = 0 THEN <<>>
    ELSE LET h == Head(s)
         IN  <<h>> \o (IF h \in Task THEN Dfs(ch, ch[h], fuel - 1) ELSE <<>>) \o Dfs(ch, Tail(s), fuel)
TasksOf(ch, w) == Dfs(ch, ch[Root(w)], N + 1)

---------------------------------------------------------------------------
(* projected state <-> core state *)
PreSets(G) == [t \in Task |-> Ran(G.pre[t])]
SucSets(G) == [t \in Task |-> Ran(G.suc[t])]
Core(G)    == [ch |-> G.ch, pre |-> PreSets(G)]
DerivedPar(c) == [t \in Task |-> ParOf(c.ch, t)]
DerivedOwn(c) == [t \in Task |-> OwnOf(c.ch, t)]
DerivedSuc(c) == [t \in Task |-> {a \in Task : t \in c.pre[a]}]

---------------------------------------------------------------------------
(* C01 -- hierarchy and dependency graph well-formed (over the PROJECTED state) *)
C01_Forest(G) ==
    /\ \A t \in Task :
          LET occT == Occ(G.ch, Task, t)
              occR == Occ(G.ch, Roots, t)
          IN  IF G.par[t] \in Task
              THEN Count(G.ch[G.par[t]], t) = 1 /\ occT = 1 /\ occR = 0
              ELSE G.par[t] = 0 /\ occT = 0 /\ occR <= 1
                   \* a task that reports a WBS and no parent is a root task of that WBS: listed there, once
                   /\ (G.own[t] \in Wbs => Count(G.ch[Root(G.own[t])], t) = 1)
    /\ \A t \in Task : t \notin Anc(G.par, t)
    /\ \A n \in Node : Ran(G.ch[n]) \subseteq Task
C01_Mirror(G) ==
    /\ \A a, b \in Task : (b \in Ran(G.pre[a])) <=> (a \in Ran(G.suc[b]))
    /\ \A a \in Task : Ran(G.pre[a]) \subseteq Task /\ Ran(G.suc[a]) \subseteq Task
C01_DagLinks(G) == \A a \in Task : a \notin AllPre(PreSets(G), a)
C01_NoKin(G) ==
    \A a, b \in Task : b \in Ran(G.pre[a]) \cup Ran(G.suc[a]) =>
                        b \notin Anc(G.par, a) /\ a \notin Anc(G.par, b)
C01(G) == C01_Forest(G) /\ C01_Mirror(G) /\ C01_DagLinks(G) /\ C01_NoKin(G)

(* C05 -- ids unique per WBS and per tree *)
UniqueIds(S) == \A a, b \in S : IdOf[a] = IdOf[b] => a = b
C05_UniqueId(G) ==
    /\ \A w \in Wbs : UniqueIds(Members(G.ch, w))
    /\ \A t \in Task : UniqueIds(Subtree(G.ch, t))
(* obs = [ids, lookup, tasks] : w[i] for each probed id (0 = RuntimeError) and list(w.tasks) *)
C05_Lookup(G, obs) ==
    /\ \A w \in Wbs : \A k \in DOMAIN obs.ids :
          LET M == {t \in Members(G.ch, w) : IdOf[t] = obs.ids[k]}
          IN  IF M = {} THEN obs.lookup[w][k] = 0 ELSE obs.lookup[w][k] \in M
    /\ \A w \in Wbs : obs.tasks[w] = TasksOf(G.ch, w)
    (* every member exactly once *)
    /\ \A w \in Wbs : /\ \A i, j \in DOMAIN obs.tasks[w] : obs.tasks[w][i] = obs.tasks[w][j] => i = j
                      /\ Ran(obs.tasks[w]) = Members(G.ch, w)
    (* lookup is exact: the ids of the universes are integers, their text is nobody's id *)
    /\ \A w \in Wbs : \A k \in DOMAIN obs.strlookup[w] : obs.strlookup[w][k] = 0

(* C11 -- Task.wbs tells the truth *)
C11_Owner(G) == \A t \in Task : G.own[t] = OwnOf(G.ch, t)

---------------------------------------------------------------------------
(* well-formedness of a CORE state (the intended design's invariant) *)
Full(c) == [par |-> DerivedPar(c), ch |-> c.ch,
            pre |-> c.pre, suc |-> DerivedSuc(c), own |-> DerivedOwn(c)]
InvCore(c) ==
    /\ \A t \in Task : Occ(c.ch, Node, t) <= 1
    /\ \A t \in Task : t \notin Below(c.ch, t)
    /\ \A a \in Task : a \notin AllPre(c.pre, a)
    /\ \A a \in Task : \A b \in c.pre[a] : b \notin Subtree(c.ch, a) /\ a \notin Subtree(c.ch, b)
    /\ \A w \in Wbs : UniqueIds(Members(c.ch, w))
    /\ \A t \in Task : UniqueIds(Subtree(c.ch, t))

---------------------------------------------------------------------------
(* Actions are records [name, n, t, i, seq, before, after, key, rev].      *)
(* Effects(c, a): the set of admissible core states after a RETURNING call *)
(* (documented effect + frame).  {} means: no admissible result, the call  *)
(* has to be refused.                                                      *)
DropEverywhere(ch, S) == [n \in Node |-> Without(ch[n], S)]

Attach(c, n, t) ==         \* t (with its subtree) becomes the last child of node n
    LET ch1 == DropEverywhere(c.ch, {t})
    IN  [c EXCEPT !.ch = [ch1 EXCEPT ![n] = Append(ch1[n], t)]]

EffSetParent(c, t, p) ==
    IF p # 0 THEN {Attach(c, p, t)} \cup (IF ParOf(c.ch, t) = p THEN {c} ELSE {})
    ELSE LET w == OwnOf(c.ch, t)
         IN  IF w # 0 THEN {Attach(c, Root(w), t)} \cup (IF t \in Ran(c.ch[Root(w)]) THEN {c} ELSE {})
             ELSE {[c EXCEPT !.ch = DropEverywhere(c.ch, {t})]}

SetChildrenTo(c, n, S) ==
    [c EXCEPT !.ch = [m \in Node |-> IF m = n THEN S ELSE Without(c.ch[m], Ran(S))]]
EffSetChildren(c, n, seq) ==
    IF Ran(seq) \subseteq Task
    THEN {SetChildrenTo(c, n, DedupFirst(seq)), SetChildrenTo(c, n, DedupLast(seq))}
    ELSE {}

EffAppend(c, n, t) == {Attach(c, n, t)}

(* insert(i, t): documented for a NEW task (not yet in the list) and 0 <= i <= len; otherwise only *)
(* the frame is demanded: t ends up somewhere in the list, the others keep their order            *)
EffInsert(c, n, i, t) ==
    LET ch1  == DropEverywhere(c.ch, {t})
        rest == ch1[n]
    IN  IF t \notin Ran(c.ch[n]) /\ i >= 0 /\ i <= Len(rest)
        THEN {[c EXCEPT !.ch = [ch1 EXCEPT ![n] = InsAt(rest, i, t)]]}
        ELSE {[c EXCEPT !.ch = [ch1 EXCEPT ![n] = InsAt(rest, k, t)]] : k \in 0..Len(rest)}

EffRemoveFrom(c, n, t) ==
    IF t \in Ran(c.ch[n]) THEN {[c EXCEPT !.ch = DropEverywhere(c.ch, {t})]} ELSE {c}

(* children.remove_all(): without a filter every listed task goes, with the filter prio = k the listed tasks  *)
(* whose attribute prio is k (key: 0 = no filter, k+1 = filter on prio k); each takes its subtree along           *)
(* key 4: a callable that cannot be evaluated for tasks whose attribute mix is None (prio 0): the filter is     *)
(* evaluated for every candidate before anything is removed, so one such task refuses the whole call.          *)
(* via 2: WBS.remove_all - the candidates are all members of the WBS, not only its root tasks                    *)
RemoveAllCand(c, n, via) == IF via = 2 THEN Members(c.ch, n - N) ELSE Ran(c.ch[n])
RemoveAllSet(c, n, key, via) == {t \in RemoveAllCand(c, n, via) : key \in {0, 4} \/ Prio[t] = key - 1}
EffRemoveAll(c, n, key, via) ==
    IF key = 4 /\ \E t \in RemoveAllCand(c, n, via) : Prio[t] = 0 THEN {}
    ELSE LET S == RemoveAllSet(c, n, key, via)
             \* a match below another match leaves with it and stays attached to it
             top == {m \in S : ~\E a \in S \ {m} : m \in Below(c.ch, a)}
         IN  {[c EXCEPT !.ch = DropEverywhere(c.ch, top)]}

EffMove(c, n, ts0, before, after) ==
    LET ts   == DedupFirst(ts0)
        cur  == c.ch[n]
        anch == IF before # 0 THEN before ELSE after
        rest == Without(cur, Ran(ts))
    IN  IF /\ (before # 0) # (after # 0)               \* exactly one anchor
           /\ Ran(ts) \subseteq Ran(cur) /\ anch \in Ran(cur) /\ anch \notin Ran(ts) /\ ts # <<>>
        THEN LET k == IndexOf(rest, anch)
             IN  IF before # 0
                 THEN {[c EXCEPT !.ch[n] = InsSeqAt(rest, k - 1, ts)]}
                 ELSE {[c EXCEPT !.ch[n] = InsSeqAt(rest, k, ts)],
                       [c EXCEPT !.ch[n] = InsSeqAt(rest, k, Rev(ts))]}
        ELSE {}

(* key 1 = the attribute "prio", key 2 = the id, key 3 = the attribute "mix": the value of prio, except    *)
(* that tasks with prio 0 carry None there, which cannot be compared: sorting two or more tasks of which   *)
(* one has no comparable key is rejected (and, C15, must then leave the order alone)                       *)
KeyOf(key, t) == IF key = 2 THEN IdOf[t] ELSE Prio[t]
Incomparable(key, t) == key = 3 /\ Prio[t] = 0
EffSort(c, n, key, rev) ==
    IF Len(c.ch[n]) >= 2 /\ \E t \in Ran(c.ch[n]) : Incomparable(key, t) THEN {} ELSE
    LET cur == c.ch[n]
        Asc(s)  == \A i, j \in DOMAIN s : i < j => KeyOf(key, s[i]) <= KeyOf(key, s[j])
        Desc(s) == \A i, j \in DOMAIN s : i < j => KeyOf(key, s[i]) >= KeyOf(key, s[j])
        Stable(s) == \A i, j \in DOMAIN s : (i < j /\ KeyOf(key, s[i]) = KeyOf(key, s[j]))
                                              => IndexOf(cur, s[i]) < IndexOf(cur, s[j])
    IN  {[c EXCEPT !.ch[n] = s] : s \in {p \in Perms(cur) : (IF rev = 0 THEN Asc(p) ELSE Desc(p)) /\ Stable(p)}}

EffReorder(c, n, ids0) ==
    LET ids == DedupFirst(ids0)
        cur == c.ch[n]
        Pick(i) == {t \in Ran(cur) : IdOf[t] = i}
    IN  IF \A k \in DOMAIN ids : Cardinality(Pick(ids[k])) = 1
        THEN LET front == [k \in DOMAIN ids |-> CHOOSE t \in Pick(ids[k]) : TRUE]
             IN  {[c EXCEPT !.ch[n] = front \o Without(cur, Ran(front))]}
        ELSE {}

EffSetPreds(c, t, S) == {[c EXCEPT !.pre[t] = S]}
EffSetSuccs(c, t, S) ==
    {[c EXCEPT !.pre = [a \in Task |-> IF a \in S THEN c.pre[a] \cup {t} ELSE c.pre[a] \ {t}]]}

EffWbsRemove(c, w, t) ==
    IF t \in Members(c.ch, w) THEN {[c EXCEPT !.ch = DropEverywhere(c.ch, {t})]} ELSE {c}

(* x <op> list-of-tasks, applied to every task of a list in turn: the composition of the single steps *)
RECURSIVE FoldPreds(_, _, _, _)
FoldPreds(c, ts, S, succ) ==
    IF ts = <<>> THEN c
    ELSE LET t == Head(ts)
             c1 == IF succ THEN [c EXCEPT !.pre = [a \in Task |-> IF a \in S THEN c.pre[a] \cup {t} ELSE c.pre[a]]]
                           ELSE [c EXCEPT !.pre[t] = c.pre[t] \cup S]
         IN  FoldPreds(c1, Tail(ts), S, succ)

(* a live task-list object of the API used as an argument: its current content (links: any order) *)
SetAsSeq(S) == CHOOSE s \in [1..Cardinality(S) -> S] : Ran(s) = S
ListObj(c, m, kind) ==
    CASE kind = 1 -> c.ch[m]
      [] kind = 2 -> SetAsSeq(c.pre[m])
      [] kind = 3 -> SetAsSeq({x \in Task : m \in c.pre[x]})

(* Task(id, parent=, children=, successors=, predecessors=): a NEW object (standing in for the isolated *)
(* task a.t) to which the given relations are applied in the constructor's order                         *)
Bind(S, F(_)) == UNION {F(x) : x \in S}
Isolated(c, t) == Holders(c.ch, t) = {} /\ c.ch[t] = <<>> /\ c.pre[t] = {} /\ \A x \in Task : t \notin c.pre[x]
(* bulk assignment through a task-list facade (lst.parent = p, lst.predecessors = ts): applied to the     *)
(* listed tasks one after the other, every step validated like the single call                            *)
RECURSIVE BulkParentFold(_, _, _)
BulkParentFold(S, ts, p) ==
    IF ts = <<>> \/ S = {} THEN S
    ELSE BulkParentFold({y \in Bind(S, LAMBDA x : EffSetParent(x, Head(ts), p)) : InvCore(y)}, Tail(ts), p)
RECURSIVE BulkPredsFold(_, _, _)
BulkPredsFold(S, ts, P) ==
    IF ts = <<>> \/ S = {} THEN S
    ELSE BulkPredsFold({y \in Bind(S, LAMBDA x : EffSetPreds(x, Head(ts), P)) : InvCore(y)}, Tail(ts), P)

EffNew(c, a) ==
    IF ~Isolated(c, a.t) THEN {}
    ELSE LET s1 == IF a.n # 0 THEN {Attach(c, a.n, a.t)} ELSE {c}
             s2 == IF (a.key % 2) = 1 THEN Bind(s1, LAMBDA x : EffSetChildren(x, a.t, a.seq)) ELSE s1
             s3 == IF ((a.key \div 2) % 2) = 1 THEN Bind(s2, LAMBDA x : EffSetSuccs(x, a.t, Ran(a.seq2))) ELSE s2
             s4 == IF ((a.key \div 4) % 2) = 1 THEN Bind(s3, LAMBDA x : EffSetPreds(x, a.t, Ran(a.seq3))) ELSE s3
         IN  s4

Effects(c, a) ==
    CASE a.name = "SetParent"      -> EffSetParent(c, a.t, a.n)
      [] a.name = "New"            -> EffNew(c, a)
      [] a.name = "SetChildren"    -> EffSetChildren(c, a.n, a.seq)
      [] a.name = "SetChildrenOne" -> EffSetChildren(c, a.n, <<a.t>>)
      [] a.name = "SetChildrenFrom" ->       \* link lists are sets in the core: any order of them is admitted
            IF a.key = 1 THEN EffSetChildren(c, a.n, ListObj(c, a.t, 1))
            ELSE UNION {EffSetChildren(c, a.n, p) : p \in Perms(ListObj(c, a.t, a.key))}
      [] a.name = "SetPredsFrom"   -> EffSetPreds(c, a.n, Ran(ListObj(c, a.t, a.key)))
      [] a.name = "SetSuccsFrom"   -> EffSetSuccs(c, a.n, Ran(ListObj(c, a.t, a.key)))
      [] a.name = "ChAppend"       -> EffAppend(c, a.n, a.t)
      [] a.name = "ChInsert"       -> EffInsert(c, a.n, a.i, a.t)
      [] a.name = "ChRemove"       -> EffRemoveFrom(c, a.n, a.t)
      [] a.name = "ChRemoveAll"    -> EffRemoveAll(c, a.n, a.key, a.via)
      [] a.name = "ChMove"         -> EffMove(c, a.n, a.seq, a.before, a.after)
      [] a.name = "ChSort"         -> EffSort(c, a.n, a.key, a.rev)
      [] a.name = "ChReorder"      -> EffReorder(c, a.n, a.seq)
      [] a.name = "SetPreds"       -> EffSetPreds(c, a.t, Ran(a.seq))
      [] a.name = "SetSuccs"       -> EffSetSuccs(c, a.t, Ran(a.seq))
      [] a.name = "PredAppend"     -> EffSetPreds(c, a.t, c.pre[a.t] \cup {a.n})
      [] a.name = "PredRemove"     -> EffSetPreds(c, a.t, c.pre[a.t] \ {a.n})
      [] a.name = "SuccAppend"     -> {[c EXCEPT !.pre[a.n] = c.pre[a.n] \cup {a.t}]}
      [] a.name = "SuccRemove"     -> {[c EXCEPT !.pre[a.n] = c.pre[a.n] \ {a.t}]}
      [] a.name = "FloorDiv"       -> EffSetChildren(c, a.n, c.ch[a.n] \o a.seq)
      [] a.name = "LShift"         -> EffSetPreds(c, a.t, c.pre[a.t] \cup Ran(a.seq))
      [] a.name = "RShift"         -> {[c EXCEPT !.pre = [x \in Task |-> IF x \in Ran(a.seq)
                                                           THEN c.pre[x] \cup {a.t} ELSE c.pre[x]]]}
      [] a.name = "ListLShift"     -> {FoldPreds(c, c.ch[a.n], Ran(a.seq), FALSE)}
      [] a.name = "ListRShift"     -> {FoldPreds(c, c.ch[a.n], Ran(a.seq), TRUE)}
      [] a.name = "WbsRemove"      -> EffWbsRemove(c, a.n - N, a.t)
      [] a.name = "BulkParent"     -> BulkParentFold({c}, c.ch[a.n], a.t)
      [] a.name = "BulkPreds"      -> BulkPredsFold({c}, c.ch[a.n], Ran(a.seq))
      [] OTHER                     -> {}

(* value returned by a returning call, where the API documents one; -1 = unspecified *)
RetOf(c, a) ==
    CASE a.name = "ChRemove"   -> IF a.t \in Ran(c.ch[a.n]) THEN 1 ELSE 0
      [] a.name = "PredRemove" -> IF a.n \in c.pre[a.t] THEN 1 ELSE 0
      [] a.name = "SuccRemove" -> IF a.t \in c.pre[a.n] THEN 1 ELSE 0
      [] a.name = "WbsRemove"  -> IF a.t \in Members(c.ch, a.n - N) THEN 1 ELSE 0
      [] a.name \in {"FloorDiv", "LShift", "RShift"} -> 1
      [] OTHER -> -1

---------------------------------------------------------------------------
(* guards of the intended design *)
GoodEffects(c, a) == {e \in Effects(c, a) : InvCore(e)}
MustReject(c, a)  == GoodEffects(c, a) = {}      \* every admissible effect would break C01/C05

(* the tasks an action brings under node n, for the documented cross-WBS refusal *)
Incoming(c, a) ==
    CASE a.name \in {"SetParent", "New"}          -> IF a.n = 0 THEN {} ELSE {a.t}
      [] a.name \in {"ChAppend", "ChInsert", "SetChildrenOne"} -> {a.t}
      [] a.name \in {"SetChildren", "FloorDiv"}   -> Ran(a.seq) \cap Task
      [] a.name = "SetChildrenFrom"               -> Ran(ListObj(c, a.t, a.key))
      [] a.name = "BulkParent"                    -> IF a.t = 0 THEN {} ELSE Ran(c.ch[a.n])
      [] OTHER -> {}
TargetNode(a) == IF a.name = "BulkParent" THEN a.t ELSE a.n
CrossWbs(c, a) ==
    LET X == Incoming(c, a)
    IN  X # {} /\ \E x \in X : OwnOf(c.ch, x) # 0 /\ OwnOf(c.ch, x) # OwnOfNode(c.ch, TargetNode(a))

Rejects(c, a) == MustReject(c, a) \/ CrossWbs(c, a)

(* C05: an operation that would put two tasks with equal ids into one WBS / tree is rejected      *)
(* with RuntimeError: every admissible effect breaks id-uniqueness                                 *)
IdClashE(E) ==
    /\ E # {}
    /\ \A e \in E :
          \/ \E w \in Wbs : ~UniqueIds(Members(e.ch, w))
          \/ \E t \in Task : ~UniqueIds(Subtree(e.ch, t))
IdClash(c, a) == IdClashE(Effects(c, a))
(* the exception TYPE is only demanded when the id clash is the only thing wrong with the call *)
ArgsInDomain(c, a) ==
    CASE a.name = "ChInsert" -> a.i >= 0 /\ a.i <= Len(Without(c.ch[a.n], {a.t}))
      [] OTHER -> TRUE

(* C11: a detached tree whose ids do not clash can be attached to a WBS *)
ReattachShape(c, a) ==
    /\ a.name \in {"SetParent", "ChAppend"}
    /\ a.n # 0
    /\ Holders(c.ch, a.t) = {}                    \* a.t is the root of a detached tree
    /\ OwnOfNode(c.ch, a.n) # 0                   \* the target is inside some WBS
Reattach(c, a) == ReattachShape(c, a) /\ ~MustReject(c, a)

=============================================================================
