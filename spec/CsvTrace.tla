------------------------------ MODULE CsvTrace ------------------------------
(***************************************************************************)
(* Judge for write_csv / read_csv runs recorded from the real code.        *)
(* Event: [id, out, W, F, W2, Wh, Wb, fix]                                 *)
(*   W   the world that was written (built through the public API)         *)
(*   F   the written file, decoded into cells by the harness               *)
(*   W2  projection of read_csv(write_csv(w))                              *)
(*   Wh  projection of read_csv(file written by the harness in the         *)
(*       documented layout), Wb the same file with a byte-order mark       *)
(*   fix the second and third generation files are byte-identical          *)
(*   We  projection of the re-read WBS after the harness edited hierarchy  *)
(*       and dependencies; W3 projection of read_csv(write_csv(edited))    *)
(***************************************************************************)
EXTENDS CsvIO, Json, IOUtils, TLCExt

Batch == JsonDeserialize(IOEnv.TRACE_FILE)
VARIABLE k
Report(ok, e, clause, detail) == IF ok THEN TRUE ELSE PrintT(<<"FAIL", e.id, clause, detail>>)

Layout(W, F) ==
    LET extra == SubSeq(F.header, Len(FixedCols) + 1, Len(F.header))
        X == {extra[i] : i \in DOMAIN extra}
        Cu == {CustomCols(W)[i] : i \in DOMAIN CustomCols(W)}
    IN
    /\ Len(F.header) >= Len(FixedCols) /\ SubSeq(F.header, 1, Len(FixedCols)) = FixedCols
    /\ \A i, j \in DOMAIN extra : extra[i] = extra[j] => i = j
    /\ Cu \subseteq X /\ X \subseteq Cu \cup {"min_start"}
    /\ Len(F.rows) = NTc(W)
    /\ \A t \in Tc(W) :
          /\ Len(F.rows[t]) = Len(F.header)
          /\ \A i \in DOMAIN FixedCols : SameCell(F.rows[t][i], RowOf(W, t)[i])
          /\ \A i \in DOMAIN extra :
                SameCell(F.rows[t][Len(FixedCols) + i],
                         IF extra[i] = "min_start" THEN W.f[t].minstart ELSE CustomCell(W, t, extra[i]))
          /\ ("min_start" \notin X) => W.f[t].minstart = NoneC

Judge(e) ==
    /\ Report(e.out = "ok", e, "C13.outcome", e.out)
    /\ e.out = "ok" =>
         /\ Report(Layout(e.W, e.F), e, "C13.layout", 0)
         /\ Report(Equiv(e.W2, e.W), e, "C13.roundtrip", 0)
         /\ Report(Equiv(e.Wh, e.W), e, "C13.handwritten", 0)
         /\ Report(Equiv(e.Wb, e.W), e, "C13.bom", 0)
         /\ Report(e.fix, e, "C13.fixpoint", 0)
         /\ Report(Equiv(e.W3, e.We), e, "C13.history", 0)     \* read, edit, write, read: the edits survive

Init == k = 1
Next == /\ k <= Len(Batch)
        /\ k' = IF Judge(Batch[k]) THEN k + 1 ELSE k + 1
Done == (k = Len(Batch) + 1) => PrintT(<<"JUDGED", Len(Batch)>>)
Spec == Init /\ [][Next]_k
=============================================================================
