------------------------------ MODULE Calendar ------------------------------
(***************************************************************************)
(* Calendar algebra and availability search of pjplan (calendar.py,        *)
(* resource.py).                                                           *)
(*                                                                         *)
(* Time: an instant is a number of minutes since the model epoch, a        *)
(* Monday 00:00 (1440 minutes per day, weekday 0 = Monday).                *)
(* Amounts: exact rationals <<num, den>> with den > 0; NoInfo = <<0, 0>>   *)
(* stands for "the calendar has no information" (None in the code).        *)
(*                                                                         *)
(* Calendar expressions are records:                                       *)
(*   [k |-> "weekly", form |-> "list", days |-> <<0,1,..>>, u |-> q,       *)
(*                    hs, s, he, e]            q on listed weekdays else 0 *)
(*   [k |-> "weekly", form |-> "dict", days |-> <<..>>, us |-> <<q..>>,..] *)
(*   [k |-> "direct", days |-> <<day numbers>>, us |-> <<q..>>]            *)
(*        (entries in the order they were configured - constructor, then   *)
(*         set_units calls: the LAST entry of a day is the configured one) *)
(*   [k |-> "func", fn |-> "half"|"orzero"|"plus1", c |-> expr]            *)
(*        calendar.apply(f): f receives the value or None                  *)
(*   [k |-> "fixed",  u |-> q, hs, s, he, e]                               *)
(*   [k |-> "num",    u |-> q]        a number used as an operand          *)
(*   [k |-> "op", op |-> "+"|"-"|"*"|"/"|"|", l |-> expr, r |-> expr]      *)
(* hs/he say whether a validity bound is given, s/e are instants.          *)
(***************************************************************************)
EXTENDS Naturals, Integers, Sequences, FiniteSets, TLC

Day == 1440
DayOf(t)     == t \div Day
Midnight(d)  == d * Day
Weekday(t)   == DayOf(t) % 7

---------------------------------------------------------------------------
(* rationals *)
NoInfo == <<0, 0>>
IsInfo(q) == q[2] # 0
Abs(x) == IF x < 0 THEN -x ELSE x
RECURSIVE Gcd(_, _)
Gcd(a, b) == IF b = 0 THEN a ELSE Gcd(b, a % b)
Norm(n, d) == LET g == Gcd(Abs(n), Abs(d))
                  sg == IF d < 0 THEN -1 ELSE 1
              IN  IF g = 0 THEN <<0, 1>> ELSE <<sg * (n \div g), sg * (d \div g)>>
QAdd(a, b) == Norm(a[1] * b[2] + b[1] * a[2], a[2] * b[2])
QSub(a, b) == Norm(a[1] * b[2] - b[1] * a[2], a[2] * b[2])
QMul(a, b) == Norm(a[1] * b[1], a[2] * b[2])
QDiv(a, b) == Norm(a[1] * b[2], a[2] * b[1])
QLess(a, b) == a[1] * b[2] < b[1] * a[2]
QEq(a, b)  == a[1] * b[2] = b[1] * a[2]
QPos(a)    == a[1] > 0
QNeg(a)    == a[1] < 0
QZero(a)   == a[1] = 0
Zero == <<0, 1>>

---------------------------------------------------------------------------
InValidity(c, t) == (c.hs => t >= c.s) /\ (c.he => t <= c.e)

RECURSIVE Eval(_, _)
(* value of calendar expression c at instant t; NoInfo where the calendar says nothing.         *)
(* Binary operators: operands without information are skipped; the first operand WITH           *)
(* information is the base, the operator is applied with the second.                            *)
Eval(c, t) ==
    CASE c.k = "weekly" ->
            IF ~InValidity(c, t) THEN NoInfo
            ELSE IF c.form = "list"
                 THEN IF \E i \in DOMAIN c.days : c.days[i] = Weekday(t) THEN c.u ELSE Zero
                 ELSE IF \E i \in DOMAIN c.days : c.days[i] = Weekday(t)
                      THEN c.us[CHOOSE i \in DOMAIN c.days : c.days[i] = Weekday(t)] ELSE Zero
      [] c.k = "direct" ->
            IF \E i \in DOMAIN c.days : c.days[i] = DayOf(t)
            THEN c.us[CHOOSE i \in DOMAIN c.days : c.days[i] = DayOf(t) /\ \A j \in DOMAIN c.days :
                                                     (c.days[j] = DayOf(t)) => j <= i]
            ELSE NoInfo
      [] c.k = "fixed" -> IF InValidity(c, t) THEN c.u ELSE Zero
      [] c.k = "num"   -> c.u
      [] c.k = "func"  ->
            LET v == Eval(c.c, t) IN
            (CASE c.fn = "half"   -> IF IsInfo(v) THEN QDiv(v, <<2, 1>>) ELSE NoInfo
               [] c.fn = "orzero" -> IF IsInfo(v) THEN v ELSE Zero
               [] c.fn = "plus1"  -> IF IsInfo(v) THEN QAdd(v, <<1, 1>>) ELSE NoInfo)
      [] c.k = "op" ->
            LET a == Eval(c.l, t)
                b == Eval(c.r, t)
            IN  IF c.op = "|"
                THEN IF IsInfo(a) /\ QPos(a) THEN a
                     ELSE IF IsInfo(b) /\ QPos(b) THEN b ELSE NoInfo
                ELSE IF ~IsInfo(a) THEN (IF c.op = "-" /\ IsInfo(b) /\ QNeg(b) THEN NoInfo ELSE b)
                ELSE IF ~IsInfo(b) THEN (IF c.op = "-" /\ QNeg(a) THEN NoInfo ELSE a)
                ELSE CASE c.op = "+" -> QAdd(a, b)
                       [] c.op = "*" -> QMul(a, b)
                       [] c.op = "/" -> QDiv(a, b)
                       [] c.op = "-" -> LET d == QSub(a, b) IN IF QNeg(d) THEN NoInfo ELSE d

(* the property excludes division by an operand that is zero on the date *)
RECURSIVE DivByZeroAt(_, _)
DivByZeroAt(c, t) ==
    IF c.k = "func" THEN DivByZeroAt(c.c, t) ELSE
    c.k = "op" /\ ( \/ DivByZeroAt(c.l, t) \/ DivByZeroAt(c.r, t)
                    \/ (c.op = "/" /\ LET a == Eval(c.l, t) b == Eval(c.r, t)
                                      IN IsInfo(a) /\ IsInfo(b) /\ QZero(b)) )

(* what a resource reports: 0, never None *)
ResourceUnits(c, t) == LET v == Eval(c, t) IN IF IsInfo(v) THEN v ELSE Zero

RECURSIVE Valid(_)
(* constructor acceptance: invalid definitions are refused with RuntimeError *)
Valid(c) ==
    CASE c.k = "weekly" ->
            /\ \A i \in DOMAIN c.days : c.days[i] \in 0..6
            /\ IF c.form = "list" THEN ~QNeg(c.u) ELSE \A i \in DOMAIN c.us : ~QNeg(c.us[i])
            /\ (c.hs /\ c.he) => c.s <= c.e
      [] c.k = "direct" -> \A i \in DOMAIN c.us : ~QNeg(c.us[i])
      [] c.k = "fixed"  -> ~QNeg(c.u) /\ ((c.hs /\ c.he) => c.s <= c.e)
      [] c.k = "num"    -> ~QNeg(c.u)
      [] c.k = "func"   -> Valid(c.c)
      [] c.k = "op"     -> Valid(c.l) /\ Valid(c.r) /\ ~(c.op = "/" /\ c.r.k = "num" /\ QZero(c.r.u))

---------------------------------------------------------------------------
(* availability search: whole-day offsets from `from`, same time of day *)
Avail(c, from, dir, k) ==
    IF dir > 0 THEN QPos(ResourceUnits(c, from + k * Day))
               ELSE QPos(ResourceUnits(c, from - k * Day - Day))       \* the PRECEDING day has capacity
SearchHits(c, from, dir, maxDays) == {k \in 0..(maxDays - 1) : Avail(c, from, dir, k)}
(* result: [found |-> TRUE, at |-> instant] or [found |-> FALSE] (RuntimeError) *)
Search(c, from, dir, maxDays) ==
    LET H == SearchHits(c, from, dir, maxDays)
    IN  IF H = {} THEN [found |-> FALSE, at |-> 0]
        ELSE LET k == CHOOSE k \in H : \A j \in H : k <= j
             IN  [found |-> TRUE, at |-> IF dir > 0 THEN from + k * Day ELSE from - k * Day]
=============================================================================
