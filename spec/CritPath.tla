------------------------------ MODULE CritPath ------------------------------
(***************************************************************************)
(* WBS.critical_path(): the leaves on a longest chain of the dependency    *)
(* network.  Inputs use the task records of Sched.tla (par, kids, pre,     *)
(* est, spent); every leaf lasts max(est - spent, 0), missing values = 0;  *)
(* a dependency declared on a summary task binds all of its leaves (on     *)
(* either side).                                                           *)
(*                                                                         *)
(* Two independent definitions are given; MC_CritPath checks that they     *)
(* agree on every bounded input, CritTrace judges the implementation       *)
(* against the first.                                                      *)
(***************************************************************************)
EXTENDS Sched

Dur(I, l) == LET d == QSub(OrElse(I.tasks[l].est, Zero), OrElse(I.tasks[l].spent, Zero))
             IN  IF QNeg(d) THEN Zero ELSE d

(* leaf-level predecessors inside the WBS *)
LPre(I, l) == PrereqLeaves(I, l) \cap Tasks(I)
LSuc(I, l) == {m \in LeafSet(I) : l \in LPre(I, m)}

QMaxSet(S) == IF S = {} THEN Zero ELSE CHOOSE x \in S : \A y \in S : QLeq(y, x)

RECURSIVE EF(_, _, _)
EF(I, l, fuel) == IF fuel = 0 THEN Zero
                  ELSE QAdd(Dur(I, l), QMaxSet({EF(I, p, fuel - 1) : p \in LPre(I, l)}))
RECURSIVE TailOf(_, _, _)
TailOf(I, l, fuel) == IF fuel = 0 THEN Zero
                      ELSE QMaxSet({QAdd(Dur(I, m), TailOf(I, m, fuel - 1)) : m \in LSuc(I, l)})
Fuel(I) == NT(I) + 1
Length(I) == QMaxSet({EF(I, l, Fuel(I)) : l \in LeafSet(I)})
Critical(I) == {l \in LeafSet(I) : QEq(QAdd(EF(I, l, Fuel(I)), TailOf(I, l, Fuel(I))), Length(I))}

---------------------------------------------------------------------------
(* second definition: enumerate the chains *)
Chains(I) ==
    LET L == LeafSet(I)
        n == Cardinality(L)
    IN  {s \in UNION {[1..k -> L] : k \in 1..n} :
            \A i \in 1..(Len(s) - 1) : s[i] \in LPre(I, s[i + 1])}
ChainLen(I, s) == SumQ([i \in DOMAIN s |-> Dur(I, s[i])])
LongestLen(I) == QMaxSet({ChainLen(I, s) : s \in Chains(I)})
CriticalByChains(I) ==
    {l \in LeafSet(I) : \E s \in Chains(I) : (\E i \in DOMAIN s : s[i] = l) /\ QEq(ChainLen(I, s), LongestLen(I))}
=============================================================================
