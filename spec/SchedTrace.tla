----------------------------- MODULE SchedTrace -----------------------------
(***************************************************************************)
(* Judge for executions of ForwardScheduler.calc / BackwardScheduler.calc  *)
(* recorded from the real code under a frozen clock.  One event per call:  *)
(*   [id, I, R, lo, hi, obs, pure, rep, clk, solo]                         *)
(* I, R as in Sched.tla; lo..hi the window of days the harness observed;   *)
(* obs: what the usage report and the result's resources answer;           *)
(* pure: projections of the input WBS before/after and of the result;      *)
(* rep: results of repeated calls; clk: result under another clock value;  *)
(* solo: dates of one task in the schedule of the WBS without the tasks    *)
(* unrelated to it (balance off).                                          *)
(* Each clause is printed when it fails: <<"FAIL", id, clause, detail>>.   *)
(***************************************************************************)
EXTENDS Sched, Json, IOUtils, TLCExt

Batch == JsonDeserialize(IOEnv.TRACE_FILE)

VARIABLE k

Report(ok, e, clause, detail) == IF ok THEN TRUE ELSE PrintT(<<"FAIL", e.id, clause, detail>>)
All(S, P(_)) == \A x \in S : P(x)

(* B is a repeated result: its ledger is omitted (sameRows) when the harness found it identical to A's *)
SameResult(A, B) == A.out = B.out /\ (A.out = "ok" => (A.start = B.start /\ A.end = B.end /\ (B.sameRows \/ A.rows = B.rows)))
WithRows(A, B) == IF B.sameRows THEN [B EXCEPT !.rows = A.rows] ELSE B

(* the domain restrictions of the properties *)
SchedLeaf(I, t)    == IsLeaf(I, t) /\ ~IsMs(I, t)
FreeStart(I, t)    == SchedLeaf(I, t) /\ ~StartFixed(I, t)
Working(I, t)      == SchedLeaf(I, t) /\ ~Completed(I, t)

(* backward inputs with user-fixed dates are outside C09's and C04's stated domain; C03 C06 C07 still apply *)
BwdFixed(I) == I.dir = "bwd" /\ \E t \in Tasks(I) : StartFixed(I, t) \/ EndFixed(I, t)

(* the clauses about ONE result R of input I (the first call and every repeated call are judged alike) *)
ResultClauses(e, I, R, tag) ==
    LET fwd == I.dir = "fwd"  free == ~BwdFixed(I) IN
    /\ Report(\A t \in Tasks(I) : R.start[t] # Missing /\ R.end[t] # Missing, e, "C06.dated", tag)
    /\ Report(~R.overflow, e, "C03.row", <<"ledger longer than any input needs", tag>>)
    /\ Report(R.foreign = 0, e, "C03.row", <<"rows for objects that are no tasks of the result", R.foreign, tag>>)
    /\ \A t \in Tasks(I) : Report(C07_Order(I, R, t), e, "C07.order", <<t, tag>>)
    (* the clauses about the ledger alone do not wait for every task to be dated *)
    /\ \A t \in Tasks(I) :
         /\ (Working(I, t) /\ free) => Report(C04_Work(I, R, t), e, "C04.work", <<t, tag>>)
         /\ ~Working(I, t) => Report(C04_NoRows(I, R, t), e, "C04.norows", <<t, tag>>)
    /\ \A j \in RowIdx(R) : Report(C03_Row(I, R, j), e, "C03.row", <<j, tag>>)
    /\ Report(C03_Capacity(I, R), e, "C03.capacity", tag)
    /\ (\A t \in Tasks(I) : R.start[t] # Missing /\ R.end[t] # Missing) =>
       /\ \A t \in Tasks(I) :
            /\ (fwd /\ FreeStart(I, t)) => Report(C02_NotBefore(I, R, t), e, "C02.notbefore", <<t, tag>>)
            /\ (fwd /\ IsLeaf(I, t) /\ IsMs(I, t))
                  => Report(C02_Milestone(I, R, t), e, "C02.milestone", <<t, tag>>)
            /\ (Working(I, t) /\ free) => Report(C04_Dates(I, R, t), e, "C04.dates", <<t, tag>>)
            /\ (fwd /\ SchedLeaf(I, t)) => Report(C04_FixedKept(I, R, t), e, "C04.fixed", <<t, tag>>)
            /\ ~IsLeaf(I, t) => Report(C07_RollUp(I, R, t), e, "C07.rollup", <<t, tag>>)
            /\ (fwd /\ I.balance /\ FreeStart(I, t)) => Report(C08_Tight(I, R, t), e, "C08.tight", <<t, tag>>)
            /\ (fwd /\ I.balance /\ FreeStart(I, t) /\ ~EndFixed(I, t) /\ I.now <= I.pstart /\ HasRows(R, t))
                  \* (the encoded dates are whole minutes for every generated input: a part below the minute is an error)
                  => Report(C08_Encoding(I, R, t) /\ ~R.sx[t] /\ ~R.ex[t], e, "C08.encoding", <<t, tag>>)
            /\ (fwd /\ I.balance /\ FreeStart(I, t) /\ ~EndFixed(I, t) /\ I.now <= I.pstart /\ NoLinks(I)
                  /\ QZero(Need(I, t)) /\ ~HasRows(R, t))
                  => Report(C08_ZeroWork(I, R, t) /\ ~R.sx[t], e, "C08.encoding", <<t, "no work", tag>>)
            /\ (~fwd /\ free) => Report(C09_Deadline(I, R, t), e, "C09.deadline", <<t, tag>>)
            /\ (~fwd /\ free) => \A p \in PreOf(I, t) \cap Tasks(I) :
                                      Report(C09_Dependency(I, R, p, t), e, "C09.dependency", <<t, tag>>)
            /\ (~fwd /\ free /\ I.balance /\ IsLeaf(I, t)) => Report(C09_LatePacked(I, R, t), e, "C09.latepacked", <<t, tag>>)
            /\ (~fwd /\ free /\ I.balance /\ SchedLeaf(I, t) /\ HasRows(R, t))
                  => Report(C09_Encoding(I, R, t) /\ ~R.sx[t] /\ ~R.ex[t], e, "C09.encoding", <<t, tag>>)
       /\ Report(C07_Wbs(I, R), e, "C07.wbs", tag)
       /\ (fwd /\ I.balance) => Report(C08_WbsOrder(I, R), e, "C08.wbsorder", tag)

(* the result of the first calc scheduled again (a schedule is a WBS like any other): C07 alone is judged *)
ChainClauses(e, I, C) ==
    /\ \A t \in Tasks(I) : Report(C07_Order(I, C, t), e, "C07.order", <<t, "chain">>)
    /\ (\A t \in Tasks(I) : C.start[t] # Missing /\ C.end[t] # Missing) =>
         /\ \A t \in Tasks(I) : ~IsLeaf(I, t) => Report(C07_RollUp(I, C, t), e, "C07.rollup", <<t, "chain">>)
         /\ Report(C07_Wbs(I, C), e, "C07.wbs", "chain")

JudgeOk(e) ==
    LET I == e.I  R == e.R IN
    /\ ResultClauses(e, I, R, 0)
    /\ e.chain.out = "ok" => ChainClauses(e, I, e.chain)
    /\ \A i \in DOMAIN e.rep : e.rep[i].out = "ok" => ResultClauses(e, I, WithRows(R, e.rep[i]), i)
    /\ (\A t \in Tasks(I) : R.start[t] # Missing /\ R.end[t] # Missing) =>
       /\ \A i \in DOMAIN e.obs.reserved :
             LET o == e.obs.reserved[i] IN Report(QEq(o.u, Booked(R, o.r, o.d)), e, "C03.reserved", i)
       /\ \A i \in DOMAIN e.obs.filt :
             LET o == e.obs.filt[i] IN
             Report(o.n = Cardinality(RowsOfTask(R, o.t)) /\ QEq(o.u, SumRows(R, RowsOfTask(R, o.t))), e, "C03.filter", i)
       /\ Report(e.obs.resnames, e, "C03.resources", 0)
       /\ \A r \in DOMAIN e.obs.caps : \A i \in DOMAIN e.obs.caps[r] :
             Report(LET c == e.obs.caps[r][i] IN IsInfo(c) /\ QEq(c, Cap(I, r, e.lo + i - 1)), e, "C03.calendar", r)
       /\ Report(e.pure.separate, e, "C06.separate", 0)
       /\ Report(e.pure.structout = e.pure.structin, e, "C06.struct", 0)
       /\ \A i \in DOMAIN e.rep : Report(SameResult(R, e.rep[i]), e, "C06.repeat", i)
       /\ e.clk.has => Report(SameResult(R, e.clk.R), e, "C06.clock", e.clk.now)
       /\ e.solo.has => Report(e.solo.out = "ok" /\ e.solo.start = R.start[e.solo.t] /\ e.solo.end = R.end[e.solo.t],
                               e, "C08.solo", e.solo.t)

Judge(e) ==
    LET I == e.I  R == e.R IN
    /\ Report(R.out \in {"ok", "RuntimeError"}, e, "C14.outcome", 0)
    /\ Report(Unschedulable(I, e.lo, e.hi) => R.out = "RuntimeError", e, "C14.diagnosis", 0)
    /\ Report((e.schedulable /\ ~Unschedulable(I, e.lo, e.hi)) => R.out = "ok", e, "C06.returns", 0)
    /\ Report(e.pure.after = e.pure.before, e, "C06.pure", 0)
    /\ (R.out = "ok" /\ ~Unschedulable(I, e.lo, e.hi) /\ ~I.tod /\ ~I.noise) => JudgeOk(e)   \* the other properties speak of schedulable inputs
    \* calendars that change within a day: only purity and repeatability are judged
    \* float residues the exact model cannot see (flag noise): purity, repeatability, and the one clause of C04 that
    \* speaks of days only - a start chosen by the scheduler lies on the first reserved day
    /\ (R.out = "ok" /\ I.noise /\ ~I.tod /\ I.dir = "fwd") =>
         \A t \in Tasks(I) : (SchedLeaf(I, t) /\ ~StartFixed(I, t) /\ ~EndFixed(I, t) /\ HasRows(R, t) /\ R.start[t] # Missing)
                                  => Report(DayOf(R.start[t]) = FirstDay(R, t), e, "C04.dates", <<t, "first day">>)
    /\ (R.out = "ok" /\ I.noise /\ ~I.tod) =>
         /\ \A t \in Tasks(I) : Report(C07_Order(I, R, t), e, "C07.order", <<t, "noise">>)
         /\ (I.dir = "bwd" /\ ~BwdFixed(I) /\ \A t \in Tasks(I) : R.start[t] # Missing /\ R.end[t] # Missing) =>
              \A t \in Tasks(I) :
                  /\ Report(C09_Deadline(I, R, t), e, "C09.deadline", <<t, "noise">>)
                  /\ \A p \in PreOf(I, t) \cap Tasks(I) : Report(C09_Dependency(I, R, p, t), e, "C09.dependency", <<t, "noise">>)
    /\ (R.out = "ok" /\ (I.tod \/ I.noise)) =>
         /\ Report(e.pure.separate, e, "C06.separate", 0)
         /\ Report(e.pure.structout = e.pure.structin, e, "C06.struct", 0)
         /\ \A i \in DOMAIN e.rep : Report(SameResult(R, e.rep[i]), e, "C06.repeat", i)

Init == k = 1
Next == /\ k <= Len(Batch)
        /\ k' = IF Judge(Batch[k]) THEN k + 1 ELSE k + 1
Done == (k = Len(Batch) + 1) => PrintT(<<"JUDGED", Len(Batch)>>)
Spec == Init /\ [][Next]_k
=============================================================================
