--------------------------- MODULE CalendarTrace ---------------------------
(***************************************************************************)
(* Judge for calendar observations recorded from the real classes          *)
(* (WeeklyCalendar, DirectCalendar, FixedCalendar, the operator classes,   *)
(* Resource).  One event per calendar expression:                          *)
(*   [id, expr, built ("ok" | exception class), probes, searches]          *)
(*   probes   : <<[t, v, r]>>   v = calendar.get_available_units(t) as a   *)
(*              rational (NoInfo for None), r = Resource(...).get_...      *)
(*   searches : <<[from, dir, max, found, at, exc]>>                       *)
(* Every clause of C17 is evaluated with the definitions of Calendar.tla.  *)
(***************************************************************************)
EXTENDS Calendar, Json, IOUtils, TLCExt

Batch == JsonDeserialize(IOEnv.TRACE_FILE)

VARIABLE k

Report(ok, e, clause, detail) == IF ok THEN TRUE ELSE PrintT(<<"FAIL", e.id, clause, detail>>)

SameQ(a, b) == IF IsInfo(a) /\ IsInfo(b) THEN QEq(a, b) ELSE ~IsInfo(a) /\ ~IsInfo(b)

Judge(e) ==
    /\ Report(Valid(e.expr) => e.built = "ok", e, "C17.accepts", 0)
    /\ Report(~Valid(e.expr) => e.built = "RuntimeError", e, "C17.rejects", 0)
    /\ (e.built = "ok" /\ Valid(e.expr)) =>
         /\ \A i \in DOMAIN e.probes :
               LET p == e.probes[i] IN
               DivByZeroAt(e.expr, p.t) \/
               /\ Report(p.exc = "" /\ SameQ(p.v, Eval(e.expr, p.t)), e, "C17.eval", p.t)
               /\ Report(p.exc = "" /\ SameQ(p.r, ResourceUnits(e.expr, p.t)) /\ IsInfo(p.r), e, "C17.resource", p.t)
         /\ \A i \in DOMAIN e.searches :
               LET s == e.searches[i]
                   span == {IF s.dir > 0 THEN s.from + j * Day ELSE s.from - j * Day - Day : j \in 0..(s.max - 1)}
               IN  (\E t \in span : DivByZeroAt(e.expr, t)) \/
                   LET x == Search(e.expr, s.from, s.dir, s.max) IN
                   /\ Report(x.found => (s.exc = "" /\ s.at = x.at), e, "C17.search", i)
                   /\ Report(~x.found => s.exc = "RuntimeError", e, "C17.giveup", i)

Init == k = 1
(* Judge is evaluated as an EXPRESSION (inside the IF), never as an action: TLC must not split   *)
(* its disjunctions into sub-actions.  It always yields TRUE; failures are printed.              *)
Next == /\ k <= Len(Batch)
        /\ k' = IF Judge(Batch[k]) THEN k + 1 ELSE k + 1
Done == (k = Len(Batch) + 1) => PrintT(<<"JUDGED", Len(Batch)>>)
Spec == Init /\ [][Next]_k
=============================================================================
