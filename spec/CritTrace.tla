----------------------------- MODULE CritTrace -----------------------------
(***************************************************************************)
(* Judge for WBS.critical_path() calls recorded from the real code.        *)
(* Event: [id, I, out, crit, before, after]: crit = task numbers returned, *)
(* before/after = projection of the WBS around the call.                   *)
(***************************************************************************)
EXTENDS CritPath, Json, IOUtils, TLCExt

Batch == JsonDeserialize(IOEnv.TRACE_FILE)
VARIABLE k
Report(ok, e, clause, detail) == IF ok THEN TRUE ELSE PrintT(<<"FAIL", e.id, clause, detail>>)

Judge(e) ==
    LET I == e.I
        got == {e.crit[i] : i \in DOMAIN e.crit}
    IN
    /\ Report(e.out = "ok", e, "C12.outcome", e.out)
    /\ Report(e.after = e.before, e, "C12.pure", 0)
    /\ e.out = "ok" =>
         /\ Report(got = Critical(I), e, "C12.exact", <<got, Critical(I)>>)
         /\ Report(LeafSet(I) # {} => got # {}, e, "C12.nonempty", 0)
         /\ Report(\A i, j \in DOMAIN e.crit : e.crit[i] = e.crit[j] => i = j, e, "C12.once", 0)

Init == k = 1
Next == /\ k <= Len(Batch)
        /\ k' = IF Judge(Batch[k]) THEN k + 1 ELSE k + 1
Done == (k = Len(Batch) + 1) => PrintT(<<"JUDGED", Len(Batch)>>)
Spec == Init /\ [][Next]_k
=============================================================================
