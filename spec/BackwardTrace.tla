---------------------------- MODULE BackwardTrace ----------------------------
(***************************************************************************)
(* Conformance of recorded BackwardScheduler.calc executions with the      *)
(* machine of Backward.tla (outcome, dates, ledger rows in order).         *)
(* Differences are DRIFT, never violations.                                *)
(***************************************************************************)
EXTENDS Backward, Json, IOUtils, TLCExt

Batch == JsonDeserialize(IOEnv.TRACE_FILE)

VARIABLE k
tvars == <<k, inp, todo, done, R, out>>

Drift(id, what) == PrintT(<<"DRIFT", id, what>>)

Compare(e) ==
    LET X == e.R IN
    IF out = "fail" THEN (X.out = "RuntimeError" \/ Drift(e.id, <<"outcome", X.out, "design fails">>))
    ELSE IF X.out # "ok" THEN Drift(e.id, <<"outcome", X.out, "design schedules">>)
    ELSE /\ (X.rows = R.rows \/ Drift(e.id, "rows"))
         /\ ((X.start = R.start /\ X.end = R.end) \/ Drift(e.id, "dates"))

TInit == k = 1 /\ StartB(Batch[1].I)

Load(i) ==
    IF i <= Len(Batch)
    THEN /\ inp' = Batch[i].I /\ done' = {} /\ R' = InitRB(Batch[i].I)
         /\ todo' = InitTodoB(Batch[i].I) /\ out' = InitOutB(Batch[i].I)
    ELSE UNCHANGED <<inp, todo, done, R, out>>

TNext ==
    \/ /\ k <= Len(Batch) /\ out = "run" /\ StepB /\ k' = k
    \/ /\ k <= Len(Batch) /\ out # "run"
       /\ k' = IF Compare(Batch[k]) THEN k + 1 ELSE k + 1
       /\ Load(k + 1)

Done == (k = Len(Batch) + 1) => PrintT(<<"JUDGED", Len(Batch)>>)
Spec == TInit /\ [][TNext]_tvars
=============================================================================
