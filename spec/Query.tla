-------------------------------- MODULE Query --------------------------------
(***************************************************************************)
(* Task queries and bulk operations (C18): task_list(keyword filters),     *)
(* task_list(callable), bulk attribute assignment on a query result,       *)
(* remove_all.                                                             *)
(*                                                                         *)
(* A world is one WBS with tasks 1..NT in depth-first order:               *)
(*   W = [par, kids, roots, ids, attrs, pre, suc]  attrs[t] = [name |-> v]  *)
(* Values are tagged: [k |-> "int", v |-> i] | [k |-> "str", v |-> <<..>>] *)
(* (strings are sequences over the alphabet 1..2) | [k |-> "none"] |        *)
(* [k |-> "absent"] (the task has no such attribute).                       *)
(* A filter is [attr, op, arg]: op = "eq" (plain keyword) or one of the    *)
(* twelve suffixes; arg is a value, a sequence of values (in / not_in) or  *)
(* a pattern (like / not_like).  A pattern is a sequence of atoms          *)
(* ^ (10) | $ (11) | . (12) | 1 | 2 with the search semantics of regular   *)
(* expressions: it matches if it matches at SOME position.                 *)
(***************************************************************************)
EXTENDS Naturals, Integers, Sequences, FiniteSets, TLC

Absent == [k |-> "absent"]
None   == [k |-> "none"]
IntV(i) == [k |-> "int", v |-> i]

AttrNames == {"id", "parent_id", "prio", "tag", "name", "zz", "margin", "alias_", "index"}

ValueOf(W, t, a) ==
    CASE a = "id"        -> IntV(W.ids[t])
      [] a = "parent_id" -> IF W.par[t] = 0 THEN None ELSE IntV(W.ids[W.par[t]])
      [] OTHER           -> W.attrs[t][a]

HasValue(x) == x.k \in {"int", "str"}            \* present and not None
SameValue(x, y) ==                               \* Python ==  (absent is reported as None)
    LET x1 == IF x.k = "absent" THEN None ELSE x
        y1 == IF y.k = "absent" THEN None ELSE y
    IN  x1 = y1

(* ordering of values of the same kind; strings lexicographically *)
RECURSIVE SeqLess(_, _)
SeqLess(a, b) == IF b = <<>> THEN FALSE
                 ELSE IF a = <<>> THEN TRUE
                 ELSE IF Head(a) # Head(b) THEN Head(a) < Head(b)
                 ELSE SeqLess(Tail(a), Tail(b))
Less(x, y) == IF x.k = "int" THEN x.v < y.v ELSE SeqLess(x.v, y.v)

---------------------------------------------------------------------------
(* regular-expression search over the two-letter alphabet *)
Caret == 10   Dollar == 11   Dot == 12          \* atoms are numbers: TLC cannot compare strings with numbers
AtomOk(atom, ch) == atom = Dot \/ atom = ch
RECURSIVE MatchAt(_, _, _)
(* does pattern p match string s starting at 1-based position i (consuming from there)? *)
MatchAt(p, s, i) ==
    IF p = <<>> THEN TRUE
    ELSE LET h == Head(p) IN
         IF h = Caret THEN i = 1 /\ MatchAt(Tail(p), s, i)
         ELSE IF h = Dollar THEN i = Len(s) + 1 /\ MatchAt(Tail(p), s, i)
         ELSE i <= Len(s) /\ AtomOk(h, s[i]) /\ MatchAt(Tail(p), s, i + 1)
Search(p, s) == \E i \in 1..(Len(s) + 1) : MatchAt(p, s, i)

---------------------------------------------------------------------------
Holds(W, t, f) ==
    LET x == ValueOf(W, t, f.attr) IN
    CASE f.op = "eq"          -> SameValue(x, f.arg)
      [] f.op = "in"          -> \E i \in DOMAIN f.arg : SameValue(x, f.arg[i])
      [] f.op = "not_in"      -> ~\E i \in DOMAIN f.arg : SameValue(x, f.arg[i])
      [] f.op = "is_none"     -> ~HasValue(x)
      [] f.op = "is_not_none" -> HasValue(x)
      \* comparison and pattern filters: a task lacking the attribute (or holding None) never satisfies them
      [] f.op = "ne"          -> HasValue(x) /\ ~SameValue(x, f.arg)
      [] f.op = "lt"          -> HasValue(x) /\ Less(x, f.arg)
      [] f.op = "le"          -> HasValue(x) /\ (Less(x, f.arg) \/ x = f.arg)
      [] f.op = "gt"          -> HasValue(x) /\ Less(f.arg, x)
      [] f.op = "ge"          -> HasValue(x) /\ (Less(f.arg, x) \/ x = f.arg)
      [] f.op = "like"        -> HasValue(x) /\ Search(f.arg, x.v)
      [] f.op = "not_like"    -> HasValue(x) /\ ~Search(f.arg, x.v)

(* callable filters come from a fixed pool *)
IsLeafQ(W, t) == W.kids[t] = <<>>
Pred(W, t, name) ==
    CASE name = "true"     -> TRUE
      [] name = "false"    -> FALSE
      [] name = "leaf"     -> IsLeafQ(W, t)
      [] name = "id_gt_1"  -> W.ids[t] > 1
      [] name = "has_tag"  -> HasValue(W.attrs[t]["tag"])

(* a query is [callable |-> name or "", filters |-> <<f..>>] *)
Matches(W, t, qry) ==
    IF qry.callable # "" THEN Pred(W, t, qry.callable)
    ELSE \A i \in DOMAIN qry.filters : Holds(W, t, qry.filters[i])

Select(W, list, qry) == SelectSeq(list, LAMBDA t : Matches(W, t, qry))

---------------------------------------------------------------------------
(* the lists of the API: [kind, t] *)
RECURSIVE DfsQ(_, _)
DfsQ(W, s) == IF s = <<>> THEN <<>> ELSE <<Head(s)>> \o DfsQ(W, W.kids[Head(s)]) \o DfsQ(W, Tail(s))
ListOf(W, l) ==
    CASE l.kind = "roots"        -> W.roots
      [] l.kind = "tasks"        -> DfsQ(W, W.roots)
      [] l.kind = "children"     -> W.kids[l.t]
      [] l.kind = "all_children" -> DfsQ(W, W.kids[l.t])
      [] l.kind = "preds"        -> W.pre[l.t]           \* task.predecessors, in list order
      [] l.kind = "succs"        -> W.suc[l.t]

(* remove_all on a mutable list (roots, children, WBS): the matching tasks leave with their subtrees *)
RanQ(s) == {s[i] : i \in DOMAIN s}
RECURSIVE UnderQ(_, _)
UnderQ(W, t) == {t} \cup UNION {UnderQ(W, c) : c \in RanQ(W.kids[t])}
(* remove_all on a link list unlinks the matching tasks (both ends), nothing else *)
AfterUnlink(W, l, qry) ==
    LET M == RanQ(Select(W, ListOf(W, l), qry))
        keep(s, X) == SelectSeq(s, LAMBDA x : x \notin X)
    IN  IF l.kind = "preds"
        THEN [W EXCEPT !.pre = [t \in DOMAIN W.pre |-> IF t = l.t THEN keep(W.pre[t], M) ELSE W.pre[t]],
                       !.suc = [t \in DOMAIN W.suc |-> IF t \in M THEN keep(W.suc[t], {l.t}) ELSE W.suc[t]]]
        ELSE [W EXCEPT !.suc = [t \in DOMAIN W.suc |-> IF t = l.t THEN keep(W.suc[t], M) ELSE W.suc[t]],
                       !.pre = [t \in DOMAIN W.pre |-> IF t \in M THEN keep(W.pre[t], {l.t}) ELSE W.pre[t]]]
AfterRemoveAll(W, l, qry) ==
    IF l.kind \in {"preds", "succs"} THEN AfterUnlink(W, l, qry) ELSE
    LET cand == IF l.kind = "wbs" THEN DfsQ(W, W.roots) ELSE ListOf(W, l)
        M    == RanQ(Select(W, cand, qry))
        \* a match below another match leaves with it and stays attached to it
        top  == {m \in M : ~\E a \in M : a # m /\ m \in UnderQ(W, a)}
        drop(s) == SelectSeq(s, LAMBDA x : x \notin top)
    IN  [W EXCEPT !.roots = drop(W.roots),
                  !.kids  = [t \in DOMAIN W.kids |-> drop(W.kids[t])],
                  !.par   = [t \in DOMAIN W.par |-> IF t \in top THEN 0 ELSE W.par[t]]]
Gone(W, l, qry) ==       \* tasks that are no longer members afterwards
    IF l.kind \in {"preds", "succs"} THEN {} ELSE
    LET cand == IF l.kind = "wbs" THEN DfsQ(W, W.roots) ELSE ListOf(W, l)
    IN  UNION {UnderQ(W, m) : m \in RanQ(Select(W, cand, qry))}
---------------------------------------------------------------------------
(* The list protocol beside queries (not part of C18; conformance is reported as drift):        *)
(* order_by(key, reverse) is a stable sort of the list by an integer attribute; reading an       *)
(* attribute of a list gives the column of values (None where a task lacks it); index(t) is the   *)
(* 0-based position.                                                                              *)
KeyInt(W, t, key) == IF key = "id" THEN W.ids[t] ELSE W.attrs[t][key].v
OrderBy(W, s, key, rev) ==
    LET K(j) == KeyInt(W, s[j], key)
        Rank(j) == Cardinality({i \in DOMAIN s : IF rev THEN K(i) > K(j) ELSE K(i) < K(j)})
                   + Cardinality({i \in DOMAIN s : i < j /\ K(i) = K(j)}) + 1
    IN  [r \in DOMAIN s |-> s[CHOOSE j \in DOMAIN s : Rank(j) = r]]
Column(W, s, a) == [i \in DOMAIN s |-> ValueOf(W, s[i], a)]
PositionIn(s, t) == IF \E i \in DOMAIN s : s[i] = t THEN (CHOOSE i \in DOMAIN s : s[i] = t /\ \A j \in DOMAIN s : s[j] = t => i <= j) - 1
                    ELSE -1
=============================================================================
