--------------------------- MODULE TaskGraphTrace ---------------------------
(***************************************************************************)
(* Judge for transitions recorded from the real pjplan objects.            *)
(*                                                                         *)
(* The file named by the environment variable TRACE_FILE holds a JSON list *)
(* of events  [id, pre, act, out, ret, post, obs]  where pre/post are      *)
(* projected states (harness/graph.py: project), act is the abstract       *)
(* action that was executed through the public API, out is "ok" or the     *)
(* exception class, ret the returned value.  One event is consumed per     *)
(* step; every clause of C01 C05 C11 C15 C16 is evaluated by TLC with the  *)
(* definitions of TaskGraph, and each failing clause is printed as         *)
(*     <<"FAIL", event id, clause name>>                                   *)
(* so one run reports every failing event.  DRIFT lines compare the        *)
(* accept/reject decision with the intended design (informational).        *)
(***************************************************************************)
EXTENDS TaskGraph, Json, IOUtils, TLCExt

Batch == JsonDeserialize(IOEnv.TRACE_FILE)

VARIABLE k

Same(A, B) ==
    /\ A.par = B.par /\ A.ch = B.ch /\ A.pre = B.pre /\ A.suc = B.suc /\ A.own = B.own
    /\ A.attr = B.attr

Report(ok, e, clause) == IF ok THEN TRUE ELSE PrintT(<<"FAIL", e.id, clause>>)

(* An event whose projected post-state is literally the pre-state carries same = TRUE and no   *)
(* post/obs (the harness compares the two JSON documents); the state clauses were evaluated     *)
(* when that state was first reached, so only the clauses about the call itself remain.         *)
(* Events recorded from a pre-state whose graph is already ill-formed (prebroken): only the state  *)
(* clauses are meaningful - Effects() presumes a forest.                                          *)
JudgeState(e) ==
    e.same \/
    /\ Report(C01_Forest(e.post),   e, "C01.forest")
    /\ Report(C01_Mirror(e.post),   e, "C01.mirror")
    /\ Report(C01_DagLinks(e.post), e, "C01.dag")
    /\ Report(C01_NoKin(e.post),    e, "C01.nokin")
    /\ Report(C05_UniqueId(e.post), e, "C05.unique")
    /\ Report(C11_Owner(e.post),    e, "C11.owner")

JudgeFull(e) ==
    LET c0 == Core(e.pre)
        ok == e.out = "ok"
        E  == Effects(c0, e.act)
        good == {x \in E : InvCore(x)}
    IN
    /\ Report((IdClashE(E) /\ ArgsInDomain(c0, e.act)) => e.out = "RuntimeError", e, "C05.exctype")
    /\ Report((ReattachShape(c0, e.act) /\ good # {}) => ok, e, "C11.reattach")
    /\ Report((ok /\ RetOf(c0, e.act) # -1) => e.ret = RetOf(c0, e.act), e, "C16.ret")
    /\ Report((~ok) = (good = {} \/ CrossWbs(c0, e.act)), e, "DRIFT.decision")
    /\ IF e.same
       THEN Report(ok => c0 \in E, e, "C16.effect")
       ELSE LET c1 == Core(e.post) IN
            /\ Report(C01_Forest(e.post),   e, "C01.forest")
            /\ Report(C01_Mirror(e.post),   e, "C01.mirror")
            /\ Report(C01_DagLinks(e.post), e, "C01.dag")
            /\ Report(C01_NoKin(e.post),    e, "C01.nokin")
            /\ Report(C05_UniqueId(e.post), e, "C05.unique")
            /\ Report(C05_Lookup(e.post, e.obs), e, "C05.lookup")
            /\ Report(C11_Owner(e.post),    e, "C11.owner")
            /\ Report(~ok => Same(e.pre, e.post), e, "C15.unchanged")
            /\ Report(ok => (c1 \in E /\ e.post.attr = e.pre.attr), e, "C16.effect")

Judge(e) == IF e.prebroken THEN JudgeState(e) ELSE JudgeFull(e)

Init == k = 1
(* Judge is evaluated as an EXPRESSION (inside the IF), never as an action: TLC must not split   *)
(* its disjunctions into sub-actions.  It always yields TRUE; failures are printed.              *)
Next == /\ k <= Len(Batch)
        /\ k' = IF Judge(Batch[k]) THEN k + 1 ELSE k + 1
Done == (k = Len(Batch) + 1) => PrintT(<<"JUDGED", Len(Batch)>>)
Spec == Init /\ [][Next]_k
=============================================================================
