#!/bin/sh
# Offline setup: syntax-check every specification with SANY, byte-check the harness. Nothing is fetched.
cd "$(dirname "$0")" || exit 2
mkdir -p .work evidence replays
rc=0
tmp=$(mktemp -d .work/sany.XXXXXX)
cp spec/*.tla "$tmp"/
for f in spec/*.tla; do
  m=$(basename "$f" .tla)
  out=$(cd "$tmp" && java -cp /opt/veriftools/tla/tla2tools.jar:/opt/veriftools/tla/CommunityModules-deps.jar tla2sany.SANY "$m.tla" 2>&1)
  if echo "$out" | grep -q -E "rror"; then echo "SANY FAILED: $f"; echo "$out" | tail -20; rc=1; fi
done
rm -rf "$tmp"
PYTHONDONTWRITEBYTECODE=1 /venv/bin/python - <<'PY' || rc=1
import ast, glob, sys
for f in glob.glob("harness/*.py"):
    ast.parse(open(f).read(), f)
print("harness ok")
PY
exit $rc
