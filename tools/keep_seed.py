#!/usr/bin/env python3
"""keep_seed.py <seed id> <property> <diff> <demo> <needs> <detected-by> -- store a confirmed seeded defect"""
import json, os, shutil, sys
sid, prop, diff, demo, needs, detected = sys.argv[1:7]
d = os.path.join('/verif/seeded', sid)
os.makedirs(d, exist_ok=True)
shutil.copy(diff, os.path.join(d, 'patch.diff'))
shutil.copy(demo, os.path.join(d, 'demo.py'))
meta = {"id": sid, "property": prop, "needs": needs,
        "confirmed": "scratch worktree: existing suite unchanged (84 pass, same 4 pre-existing failures) with the patch; demo.py exits non-zero with the patch and 0 without",
        "ran": "tools/try_mutant.sh %s <worktree> patch.diff demo.py  (applies to /repo, runs ./check %s --tier quick, reverts)" % (prop, prop),
        "detected_by": detected, "origin": "independent sub-agent given only the property text"}
json.dump(meta, open(os.path.join(d, 'meta.json'), 'w'), indent=1)
