"""Classic source mutants of pjplan (self-validation of the checks, see DESIGN.md 13.10).

    mutgen.py <repo> <outdir> [seed]

Walks the library source with `ast`, and for every applicable node writes ONE mutant as a unified diff
(<outdir>/<n>.diff, one changed token or statement each) plus <outdir>/index.json describing it.
Operators: comparison swaps, and/or, +/-, small constants, min/max, dropped `not`, a simple statement
replaced by `pass`, `is` for `==` on names ending in id.  Nothing here knows the checks.
"""
import ast
import difflib
import json
import os
import random
import sys

FILES = ["task.py", "wbs.py", "schedule.py", "calendar.py", "resource.py", "utils.py", "alg/critical_path.py",
         "io/csv_io.py", "io/raw.py", "viz/dhtmlx/gantt.py", "viz/mermaid/gantt.py", "viz/mermaid/network.py"]

CMP = {ast.Lt: "<=", ast.LtE: "<", ast.Gt: ">=", ast.GtE: ">", ast.Eq: "!=", ast.NotEq: "==", ast.Is: "is not",
       ast.IsNot: "is", ast.In: "not in", ast.NotIn: "in"}
CMP_TXT = {ast.Lt: "<", ast.LtE: "<=", ast.Gt: ">", ast.GtE: ">=", ast.Eq: "==", ast.NotEq: "!=", ast.Is: "is",
           ast.IsNot: "is not", ast.In: "in", ast.NotIn: "not in"}


def seg(src_lines, node):
    return ast.get_source_segment("".join(src_lines), node)


def replace_span(lines, l0, c0, l1, c1, text):
    """replace the source between (l0, c0) and (l1, c1) (1-based lines, 0-based cols) by text"""
    out = list(lines)
    first, last = out[l0 - 1], out[l1 - 1]
    out[l0 - 1:l1] = [first[:c0] + text + last[c1:]]
    return out


def between(lines, a, b, old, new):
    """replace the first occurrence of token `old` between the end of node a and the start of node b"""
    l0, c0, l1, c1 = a.end_lineno, a.end_col_offset, b.lineno, b.col_offset
    if l0 != l1:
        return None
    line = lines[l0 - 1]
    mid = line[c0:c1]
    if old not in mid:
        return None
    k = c0 + mid.index(old)
    return replace_span(lines, l0, k, l0, k + len(old), new)


def mutants_of(path, rel):
    src = open(path).read()
    lines = src.splitlines(keepends=True)
    tree = ast.parse(src)
    out = []

    def add(kind, node, new_lines, note):
        if new_lines is None or new_lines == lines:
            return
        try:
            ast.parse("".join(new_lines))
        except SyntaxError:
            return
        out.append({"file": rel, "line": node.lineno, "kind": kind, "note": note, "new": new_lines})

    docstrings = set()
    for n in ast.walk(tree):
        if isinstance(n, (ast.FunctionDef, ast.ClassDef, ast.Module)) and n.body and isinstance(n.body[0], ast.Expr) \
                and isinstance(getattr(n.body[0], "value", None), ast.Constant) and isinstance(n.body[0].value.value, str):
            docstrings.add(id(n.body[0]))
    for n in ast.walk(tree):
        if isinstance(n, ast.Compare) and len(n.ops) == 1:
            op = type(n.ops[0])
            if op in CMP:
                add("cmp", n, between(lines, n.left, n.comparators[0], CMP_TXT[op], CMP[op]),
                    "%s -> %s" % (CMP_TXT[op], CMP[op]))
                if op is ast.Eq and isinstance(n.left, ast.Attribute) and n.left.attr.endswith("id"):
                    add("is", n, between(lines, n.left, n.comparators[0], "==", "is"), "== -> is")
        elif isinstance(n, ast.BoolOp) and len(n.values) >= 2:
            old, new = ("and", "or") if isinstance(n.op, ast.And) else ("or", "and")
            add("bool", n, between(lines, n.values[0], n.values[1], old, new), "%s -> %s" % (old, new))
        elif isinstance(n, ast.BinOp) and isinstance(n.op, (ast.Add, ast.Sub)):
            old, new = ("+", "-") if isinstance(n.op, ast.Add) else ("-", "+")
            add("arith", n, between(lines, n.left, n.right, old, new), "%s -> %s" % (old, new))
        elif isinstance(n, ast.Constant) and type(n.value) is int and n.value in (0, 1) and n.end_lineno == n.lineno:
            add("const", n, replace_span(lines, n.lineno, n.col_offset, n.end_lineno, n.end_col_offset,
                                         str(1 - n.value)), "%d -> %d" % (n.value, 1 - n.value))
        elif isinstance(n, ast.Constant) and type(n.value) is bool and n.end_lineno == n.lineno:
            add("const", n, replace_span(lines, n.lineno, n.col_offset, n.end_lineno, n.end_col_offset,
                                         str(not n.value)), "%s -> %s" % (n.value, not n.value))
        elif isinstance(n, ast.Call) and isinstance(n.func, ast.Name) and n.func.id in ("min", "max"):
            new = "max" if n.func.id == "min" else "min"
            add("minmax", n, replace_span(lines, n.func.lineno, n.func.col_offset, n.func.end_lineno,
                                          n.func.end_col_offset, new), "%s -> %s" % (n.func.id, new))
        elif isinstance(n, ast.UnaryOp) and isinstance(n.op, ast.Not):
            s = seg(lines, n.operand)
            if s is not None and n.lineno == n.end_lineno:
                add("not", n, replace_span(lines, n.lineno, n.col_offset, n.end_lineno, n.end_col_offset,
                                           "(" + s + ")"), "not dropped")
        elif isinstance(n, (ast.Assign, ast.AugAssign, ast.Expr, ast.Raise, ast.Continue, ast.Break)) \
                and id(n) not in docstrings and n.col_offset > 0:
            if isinstance(n, ast.Expr) and isinstance(n.value, ast.Constant):
                continue
            add("stmt", n, replace_span(lines, n.lineno, n.col_offset, n.end_lineno, n.end_col_offset, "pass"),
                "statement -> pass")
    return lines, out


def main():
    repo, outdir = sys.argv[1], sys.argv[2]
    seed = int(sys.argv[3]) if len(sys.argv) > 3 else 1
    os.makedirs(outdir, exist_ok=True)
    index = []
    k = 0
    for rel in FILES:
        path = os.path.join(repo, "src", "pjplan", rel)
        lines, muts = mutants_of(path, rel)
        for m in muts:
            k += 1
            a = "src/pjplan/" + rel
            diff = "".join(difflib.unified_diff(lines, m["new"], "a/" + a, "b/" + a, n=3))
            with open(os.path.join(outdir, "%d.diff" % k), "w") as fh:
                fh.write(diff)
            index.append({"n": k, "file": rel, "line": m["line"], "kind": m["kind"], "note": m["note"]})
    random.Random(seed).shuffle(index)
    with open(os.path.join(outdir, "index.json"), "w") as fh:
        json.dump(index, fh, indent=0)
    print("%d mutants" % k)


if __name__ == "__main__":
    main()
