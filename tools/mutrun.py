"""Run the quick tier of the engines that concern a mutated file and report which properties object.

    mutrun.py one <engine>                  (PJPLAN_REPO names the mutated copy)  -> JSON {prop: violations}
    mutrun.py all <repo> <diffdir> <workdir> <out.json> [jobs] [per-file limit]

`all` takes the survivors of mutfilter.py (a sample per source file), builds a private copy of the repository
for each, applies the diff and runs the engines in order of cost until one objects.  The result lists, per
mutant, the first engine and the properties that reported a violation (known findings are not violations).
"""
import importlib
import json
import os
import shutil
import subprocess
import sys
import time
from concurrent.futures import ThreadPoolExecutor

VERIF = os.path.dirname(os.path.dirname(os.path.abspath(__file__)))
PY = "/venv/bin/python"
BY_FILE = {
    "task.py": ["eng_render", "eng_query", "eng_crit", "eng_copy", "eng_csv", "eng_sched", "eng_graph"],
    "wbs.py": ["eng_render", "eng_query", "eng_crit", "eng_copy", "eng_csv", "eng_sched", "eng_graph"],
    "schedule.py": ["eng_render", "eng_sched"],
    "calendar.py": ["eng_calendar", "eng_sched"],
    "resource.py": ["eng_calendar", "eng_sched"],
    "utils.py": ["eng_render"],
    "alg/critical_path.py": ["eng_crit"],
    "io/csv_io.py": ["eng_csv"], "io/raw.py": ["eng_csv"],
    "viz/dhtmlx/gantt.py": ["eng_render"], "viz/mermaid/gantt.py": ["eng_render"],
    "viz/mermaid/network.py": ["eng_render"],
}
LIMIT = {"schedule.py": 60, "calendar.py": 36, "task.py": 60, "viz/dhtmlx/gantt.py": 20, "viz/mermaid/gantt.py": 12,
         "alg/critical_path.py": 24, "utils.py": 12, "resource.py": 10, "wbs.py": 16, "viz/mermaid/network.py": 8,
         "io/raw.py": 7, "io/csv_io.py": 3}


def one(engine_name):
    sys.path.insert(0, VERIF)
    from harness import cli, common, engine
    mod = importlib.import_module("harness." + engine_name)
    res = mod.run("quick", common.seed(), lambda m: None)
    known = engine.load_known()
    out = {}
    for f in res["fails"]:
        if cli.known_match(known, f):
            continue
        out[f["property"]] = out.get(f["property"], 0) + 1
    print("MUTRUN " + json.dumps(out))


def judge_mutant(repo, diffdir, workdir, m):
    root = os.path.join(workdir, "m%d" % m["n"])
    if os.path.exists(root):
        shutil.rmtree(root)
    os.makedirs(root)
    shutil.copytree(os.path.join(repo, "src"), os.path.join(root, "src"))
    shutil.copytree(os.path.join(repo, "tests"), os.path.join(root, "tests"))
    p = subprocess.run(["patch", "-p1", "-s", "-i", os.path.join(diffdir, "%d.diff" % m["n"])], cwd=root,
                       stdout=subprocess.PIPE, stderr=subprocess.STDOUT)
    rec = dict(m, engines={}, caught_by=None, props={})
    if p.returncode != 0:
        rec["error"] = "patch"
        shutil.rmtree(root, ignore_errors=True)
        return rec
    for eng in BY_FILE[m["file"]]:
        t0 = time.time()
        try:
            q = subprocess.run([PY, os.path.abspath(__file__), "one", eng], cwd=VERIF,
                               env=dict(os.environ, PJPLAN_REPO=root, VERIF_NOCACHE="1", PYTHONHASHSEED="0"),
                               stdout=subprocess.PIPE, stderr=subprocess.PIPE, text=True, timeout=1500)
            line = [l for l in q.stdout.splitlines() if l.startswith("MUTRUN ")]
            if q.returncode != 0 or not line:
                rec["engines"][eng] = {"machinery": (q.stderr or "")[-300:], "s": round(time.time() - t0)}
                continue
            props = json.loads(line[-1][7:])
        except subprocess.TimeoutExpired:
            rec["engines"][eng] = {"machinery": "timeout", "s": round(time.time() - t0)}
            continue
        rec["engines"][eng] = {"props": props, "s": round(time.time() - t0)}
        if props:
            rec["caught_by"] = eng
            rec["props"] = props
            break
    shutil.rmtree(root, ignore_errors=True)
    return rec


def run_all(repo, diffdir, workdir, outpath, jobs, scale):
    surv = json.load(open(os.path.join(diffdir, "survivors.json")))
    count = {}
    todo = []
    for m in surv:
        lim = int(LIMIT.get(m["file"], 5) * scale)
        if count.get(m["file"], 0) < lim:
            count[m["file"]] = count.get(m["file"], 0) + 1
            todo.append(m)
    done = []
    if os.path.exists(outpath):
        done = json.load(open(outpath))
        seen = {r["n"] for r in done}
        todo = [m for m in todo if m["n"] not in seen]
    print("%d mutants to judge (%d done before)" % (len(todo), len(done)), flush=True)
    with ThreadPoolExecutor(max_workers=jobs) as ex:
        for rec in ex.map(lambda m: judge_mutant(repo, diffdir, workdir, m), todo):
            done.append(rec)
            json.dump(done, open(outpath, "w"), indent=0)
            print("%5d %-24s %-6s line %-4d %-22s -> %s %s" % (rec["n"], rec["file"], rec["kind"], rec["line"], rec["note"],
                                                            rec["caught_by"] or "NOT CAUGHT", rec["props"] or ""), flush=True)


if __name__ == "__main__":
    if sys.argv[1] == "one":
        one(sys.argv[2])
    else:
        run_all(sys.argv[2], sys.argv[3], sys.argv[4], sys.argv[5], int(sys.argv[6]) if len(sys.argv) > 6 else 3,
                float(sys.argv[7]) if len(sys.argv) > 7 else 1.0)
