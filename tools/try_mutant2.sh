#!/bin/bash
# usage: try_mutant2.sh <prop> <worktree> <diff> <demo>
# like try_mutant.sh, but the check runs against a PRIVATE copy of the repository (PJPLAN_REPO), so
# several seeded defects can be tried at the same time and /repo is never touched.
P=$1; WT=$2; DIFF=$3; DEMO=$4; shift 4
cd "$WT" || exit 2
git checkout -q -- src
PYTHONPATH=$WT/src /venv/bin/python "$DEMO" >/dev/null 2>&1; clean=$?
git apply "$DIFF" || { echo "APPLY-FAILED"; exit 2; }
t=$(PYTHONPATH=$WT/src /venv/bin/python -m pytest -q -p no:cacheprovider tests 2>&1 | tail -1)
PYTHONPATH=$WT/src /venv/bin/python "$DEMO" >/dev/null 2>&1; mut=$?
git checkout -q -- src
echo "confirm: tests[$t] demo_clean=$clean demo_mutant=$mut"
M=/tmp/mrepo/$$
mkdir -p /tmp/mrepo
git -C /repo worktree add -q --detach "$M" HEAD || exit 2
( cd "$M" && git apply "$DIFF" ) || { echo "APPLY-FAILED in copy"; git -C /repo worktree remove --force "$M"; exit 2; }
mkdir -p /tmp/mrepo/ev /tmp/mrepo/rp
cd /verif && VERIF_EVIDENCE_DIR=/tmp/mrepo/ev VERIF_REPLAY_DIR=/tmp/mrepo/rp PJPLAN_REPO=$M ./check "$P" "$@" 2>/dev/null | grep -E "VIOLATION|HELD|VIOLATED|KNOWN|MACHINERY" | cut -c1-200 | awk '/^VIOLATION/{v++; if (v<=3) print; next} {print}'
git -C /repo worktree remove --force "$M"
