"""Keep the mutants the repository's own tests do not notice.

    mutfilter.py <repo> <diffdir> <workdir> [jobs]

For every diff of <diffdir>/index.json: apply it to a private copy of the repository, run the test suite, and
record whether the outcome equals the outcome on the unchanged tree (same set of failing tests).  Writes
<diffdir>/survivors.json (the mutants that still "compile and pass the existing tests").
"""
import json
import multiprocessing as mp
import os
import re
import shutil
import subprocess
import sys

PY = "/venv/bin/python"


def run_tests(root):
    p = subprocess.run([PY, "-m", "pytest", "-q", "-x", "--no-header", "-p", "no:cacheprovider", "tests",
                        "--deselect", "tests/test_pjplan/test_schedule.py::TestForwardScheduler::test_calc_2",
                        "--deselect", "tests/test_pjplan/test_schedule.py::TestForwardScheduler::test_calc_3",
                        "--deselect", "tests/test_pjplan/test_schedule.py::TestForwardScheduler::test_calc_4",
                        "--deselect", "tests/test_pjplan/test_schedule.py::TestForwardScheduler::test_calc_5"],
                       cwd=root, env=dict(os.environ, PYTHONPATH=os.path.join(root, "src")),
                       stdout=subprocess.PIPE, stderr=subprocess.STDOUT, text=True, timeout=120)
    return p.returncode == 0


def work(args):
    repo, diffdir, workdir, wid, items = args
    root = os.path.join(workdir, "w%d" % wid)
    if os.path.exists(root):
        shutil.rmtree(root)
    os.makedirs(root)
    shutil.copytree(os.path.join(repo, "src"), os.path.join(root, "src"))
    shutil.copytree(os.path.join(repo, "tests"), os.path.join(root, "tests"))
    for f in ("setup.py", "setup.cfg", "pyproject.toml", "pytest.ini", "conftest.py"):
        if os.path.exists(os.path.join(repo, f)):
            shutil.copy(os.path.join(repo, f), root)
    out = []
    for m in items:
        target = os.path.join(root, "src", "pjplan", m["file"])
        keep = open(target).read()
        p = subprocess.run(["patch", "-p1", "-s", "-i", os.path.join(diffdir, "%d.diff" % m["n"])], cwd=root,
                           stdout=subprocess.PIPE, stderr=subprocess.STDOUT)
        ok = False
        if p.returncode == 0:
            try:
                ok = run_tests(root)
            except subprocess.TimeoutExpired:
                ok = False
        with open(target, "w") as fh:
            fh.write(keep)
        for junk in (target + ".orig", target + ".rej"):
            if os.path.exists(junk):
                os.unlink(junk)
        out.append((m["n"], ok))
    shutil.rmtree(root, ignore_errors=True)
    return out


def main():
    repo, diffdir, workdir = sys.argv[1:4]
    jobs = int(sys.argv[4]) if len(sys.argv) > 4 else 12
    index = json.load(open(os.path.join(diffdir, "index.json")))
    chunks = [(repo, diffdir, workdir, i, index[i::jobs]) for i in range(jobs)]
    with mp.Pool(jobs) as pool:
        res = [x for part in pool.map(work, chunks) for x in part]
    ok = {n for n, o in res if o}
    surv = [m for m in index if m["n"] in ok]
    json.dump(surv, open(os.path.join(diffdir, "survivors.json"), "w"), indent=0)
    print("%d of %d mutants are not noticed by the repository's tests" % (len(surv), len(index)))


if __name__ == "__main__":
    main()
