#!/bin/bash
# usage: try_mutant.sh <prop> <worktree> <diff> <demo> [check args...]
# 1. confirms in the scratch worktree: tests unchanged with the diff, demo fails with it, passes without
# 2. applies the diff to /repo, runs ./check <prop>, reverts /repo
P=$1; WT=$2; DIFF=$3; DEMO=$4; shift 4
cd "$WT" || exit 2
git checkout -q -- src
PYTHONPATH=$WT/src /venv/bin/python "$DEMO" >/dev/null 2>&1; clean=$?
git apply "$DIFF" || { echo "APPLY-FAILED"; exit 2; }
t=$(PYTHONPATH=$WT/src /venv/bin/python -m pytest -q -p no:cacheprovider tests 2>&1 | tail -1)
PYTHONPATH=$WT/src /venv/bin/python "$DEMO" >/dev/null 2>&1; mut=$?
git checkout -q -- src
echo "confirm: tests[$t] demo_clean=$clean demo_mutant=$mut"
cd /repo && git apply "$DIFF" || { echo "APPLY-FAILED in /repo"; exit 2; }
cd /verif && ./check "$P" "$@" 2>/dev/null | grep -E "VIOLATION|HELD|VIOLATED|KNOWN|MACHINERY" | cut -c1-220 | head -8
cd /repo && git checkout -q -- . 
