"""Engine `copy` (C10): WBS.clone() / WBS.subtree(roots) on every reachable graph state.

The reachable states of the small universe (shared ids, 2 WBSs, links to outside tasks) are
enumerated on the real objects; in each state every WBS is cloned and sub-treed for every root
selection; the copy, the source before/after and the independence probes (mutate one side, look at
the other) are recorded and judged by TLC (spec/CopyTrace.tla, definitions of TaskGraph.tla).
"""
import itertools
import multiprocessing as mp
import pickle
import random
import time

from . import common, explore, graph, tlc

PROPS = ["C10"]


def project_u(U):
    """universe projection without objects that are not part of the universe (copies)"""
    g = graph.project(U, obs=False)
    unk = U.n + U.w + 1
    for key in ("pre", "suc", "ch"):
        g[key] = [[x for x in lst if x != unk] for lst in g[key]]
    g.pop("hv", None)
    return g


def dress(U):
    """field values with boundary cases (0 is not None), custom attributes, WBS-level attributes"""
    import datetime as _dt
    for i, w in enumerate(U.wbs):
        w.label = "L%d" % (i + 1)
        w.meta = None
    for i, t in enumerate(U.tasks):
        if i % 2 == 0:
            t.tag = i + 3
        t.estimate = (0, 2.5, None, 0.0)[i % 4]
        t.spent = (None, 0, 1, 0.0)[i % 4]
        t.milestone = i % 3 == 1
        t.resource = ("", None, "ann")[i % 3]
        t.start = None if i % 2 else _dt.datetime(2024, 1, 1 + i)
        t.min_start = _dt.datetime(2024, 2, 1) if i % 3 == 0 else None
        t.note = None if i % 2 else ""
        if i % 2 == 0:
            t.print = False          # a custom attribute called like a member of Task is a custom attribute


def states(ids, W, max_states, log):
    """reachable states of the real objects (core setters only), no judging: the graph engine does that"""
    U0 = graph.Universe(ids, W)
    dress(U0)
    alphabet = graph.alphabet(len(ids), W, L=2, ids=ids, level=1)
    seen = {graph.state_key(graph.project(U0, obs=False))}
    frontier = [pickle.dumps(U0)]
    out = [frontier[0]]
    while frontier and len(out) < max_states:
        nxt = []
        for blob in frontier:
            for a in alphabet:
                V = pickle.loads(blob)
                o, _ = graph.apply(V, a)
                if o != "ok":
                    continue
                k = graph.state_key(graph.project(V, obs=False))
                if k not in seen:
                    seen.add(k)
                    b = pickle.dumps(V)
                    nxt.append(b)
                    out.append(b)
        frontier = nxt
    return out[:max_states]


def fields(t):
    d = t.to_dict()
    # the custom attributes as the object itself holds them (to_dict is the library's own view of them)
    d["__public"] = sorted(((k, v) for k, v in vars(t).items() if not k.startswith("_")), key=str)
    d["estimate"] = t.estimate
    d["spent"] = t.spent
    return d


def copy_projection(U, w, cw):
    uni = {id(t): i + 1 for i, t in enumerate(U.tasks)}
    members = list(w.tasks)
    by_id = {}
    for m in members:
        by_id.setdefault(m.id, m)
    ct = list(cw.tasks)
    pos = {id(t): j + 1 for j, t in enumerate(ct)}
    src = [uni.get(id(by_id.get(t.id)), 0) if t.id in by_id else 0 for t in ct]

    def ref(x):
        if id(x) in pos:
            return src[pos[id(x)] - 1]
        if id(x) in uni:
            return -uni[id(x)]
        return 0

    mirror = True
    for t in ct:
        for p in t.predecessors:
            if id(p) not in pos and not any(s is t for s in p.successors):
                mirror = False
        for s in t.successors:
            if id(s) not in pos and not any(p is t for p in s.predecessors):
                mirror = False
    wattr = all(getattr(cw, k, None) == v for k, v in w.__dict__.items() if not k.startswith("_"))
    return {"src": src, "roots": [pos.get(id(t), 0) for t in cw.roots],
            "kids": [[pos.get(id(c), 0) for c in t.children] for t in ct],
            "pre": [[ref(p) for p in t.predecessors] for t in ct],
            "suc": [[ref(p) for p in t.successors] for t in ct],
            "own": [t.wbs is cw for t in ct], "fresh": [id(t) not in uni for t in ct],
            "same": [by_id.get(t.id) is not None and fields(t) == fields(by_id[t.id]) for t in ct],
            "wattr": wattr, "sep": cw is not w and all(cw is not x for x in U.wbs), "mirror": mirror}


def flat_projection(U, seq, cw):
    """WBS(tasks=seq): the new WBS as the getters report it; src[j] = the universe number of seq[j] when task j of
    the new WBS carries its id (0 otherwise)"""
    uni = {id(t): i + 1 for i, t in enumerate(U.tasks)}
    ct = list(cw.tasks)
    pos = {id(t): j + 1 for j, t in enumerate(ct)}
    src = [uni[id(seq[j])] if j < len(seq) and ct[j].id == seq[j].id else 0 for j in range(len(ct))]
    return {"src": src, "roots": [pos.get(id(t), 0) for t in cw.roots],
            "kids": [[pos.get(id(c), 0) for c in t.children] for t in ct],
            "pre": [[-uni.get(id(p), 0) for p in t.predecessors] for t in ct],
            "suc": [[-uni.get(id(p), 0) for p in t.successors] for t in ct],
            "own": [t.wbs is cw for t in ct], "fresh": [id(t) not in uni for t in ct],
            "same": [j < len(seq) and fields(t) == fields(seq[j]) for j, t in enumerate(ct)],
            "wattr": True, "sep": all(cw is not x for x in U.wbs), "mirror": True}


def cproj(cw):
    """plain projection of a copy by ids (for the independence probes)"""
    return [(t.id, t.parent.id if t.parent else None, [c.id for c in t.children],
             sorted(id(p) for p in t.predecessors), sorted(id(s) for s in t.successors), sorted(fields(t).items(), key=str),
             t.wbs is cw) for t in cw.tasks] + [[t.id for t in cw.roots],
                                                sorted((k, v) for k, v in cw.__dict__.items() if not k.startswith("_"))]


def probes(U, w, cw, post):
    pj = common.pjplan()
    res = []
    safe = lambda f: _try(f)
    # mutate the copy, look at the source
    steps = [lambda: cw.remove(cw.roots[0]) if len(cw.roots) else None,
             lambda: setattr(cw.tasks, "prio", 9),
             lambda: [setattr(t, "predecessors", []) or setattr(t, "successors", []) for t in cw.tasks],
             lambda: cw.tasks[0].children.append(pj.Task(77)) if len(cw.tasks) else None,
             lambda: setattr(cw, "label", "X")]
    for st in steps:
        safe(st)
        res.append(project_u(U) == post)
    # mutate the source, look at the copy
    c0 = cproj(cw)
    steps = [lambda: setattr(w.tasks, "prio", 8),
             lambda: setattr(w, "label", "Y"),
             lambda: w.tasks[0].children.append(pj.Task(78)) if len(w.tasks) else None,
             lambda: [setattr(t, "predecessors", []) for t in w.tasks],
             lambda: w.remove(w.roots[0]) if len(w.roots) else None]
    for st in steps:
        safe(st)
        res.append(cproj(cw) == c0)
    return res


def _try(f):
    try:
        f()
    except Exception:
        pass


def events_of(blob, start_id, rng_seed):
    U = pickle.loads(blob)
    evs = []
    eid = start_id
    for wi, w0 in enumerate(U.wbs, start=1):
        uni = {id(t): i + 1 for i, t in enumerate(U.tasks)}
        members = [uni[id(t)] for t in w0.tasks]
        acts = [{"name": "Clone", "w": wi, "seq": []}]
        for k in (0, 1, 2):
            for s in itertools.product(members, repeat=k):
                acts.append({"name": "Subtree", "w": wi, "seq": list(s)})
        if wi == 1:
            # the constructor form WBS(tasks=...): field-only clones of any tasks of the universe as roots of a new WBS
            # (outside C10: judged by CopyTrace as drift-only conformance)
            for k in (0, 1, 2):
                for s in itertools.product(range(1, len(U.tasks) + 1), repeat=k):
                    acts.append({"name": "Flat", "w": wi, "seq": list(s)})
        for a in acts:
            V = pickle.loads(blob)
            w = V.wbs[wi - 1]
            if eid % 2:
                # history before the judged call: the plan has been copied, printed and exported before, and a task
                # has received a custom attribute since (whatever the first copy remembered is out of date)
                _try(lambda: (w.clone(), w.subtree(list(w.roots)[:1]), [str(t) for t in V.tasks],
                              [t.to_dict() for t in V.tasks]))
                for t in V.tasks:
                    t.sincecopied = "s%s" % t.id
            pre = project_u(V)
            try:
                if a["name"] == "Clone":
                    cw = w.clone()
                elif a["name"] == "Flat":
                    roots = [V.task(x) for x in a["seq"]]
                    form = eid % 3
                    cw = common.pjplan().WBS(roots if form == 0 else tuple(roots) if form == 1 else (r for r in roots))
                else:
                    roots = [V.task(x) for x in a["seq"]]
                    # the selection in every form the API accepts: list, bare task, tuple, one-shot iterables
                    form = eid % 5
                    arg = (roots if form == 0 else roots[0] if len(roots) == 1 and form == 1 else tuple(roots) if form == 2
                           else (r for r in roots) if form == 3 else iter(roots))
                    cw = w.subtree(arg)
                out = "ok"
            except RecursionError:
                out, cw = "RecursionError", None
            except Exception as x:
                out, cw = type(x).__name__, None
            post = project_u(V)
            ev = {"id": eid, "pre": pre, "act": a, "out": out, "post": post,
                  "copy": {"src": [], "roots": [], "kids": [], "pre": [], "suc": [], "own": [], "fresh": [], "same": [],
                           "wattr": True, "sep": True, "mirror": True}, "indep": []}
            if out == "ok":
                ev["copy"] = (flat_projection(V, roots, cw) if a["name"] == "Flat" else copy_projection(V, w, cw))
                ev["indep"] = probes(V, w, cw, post)
            evs.append(ev)
            eid += 1
    return evs


def _work(args):
    blobs, start, wd, mod, idx = args
    evs = []
    for b in blobs:
        evs.extend(events_of(b, start + len(evs), 0))
    for i, e in enumerate(evs):
        e["id"] = start + i
    j = tlc.judge_one(wd, mod, evs, idx, heap="1g")
    byid = {e["id"]: e for e in evs}
    allf = [(byid[t[1]], t[2], str(t[3])[:80]) for t in j["fails_full"]]
    fails = [f for f in allf if not f[1].startswith("DRIFT")]
    drift = [(f[0]["act"], f[0]["pre"]["ch"], f[1], f[2]) for f in allf if f[1].startswith("DRIFT")]
    nontriv = sum(1 for e in evs if e["copy"]["src"])
    ext = sum(1 for e in evs if any(x < 0 for l in e["copy"]["pre"] + e["copy"]["suc"] for x in l))
    return {"n": len(evs), "fails": fails, "drift": drift, "flat": sum(1 for e in evs if e["act"]["name"] == "Flat"),
            "nontrivial": nontriv, "external": ext, "jstates": j["states"],
            "sample": evs[len(evs) // 2] if evs else None}


def run(tier, seed, log):
    t0 = time.time()
    common.pjplan()
    ids, W = [0, 2, 0], 2
    blobs = states(ids, W, 1200 if tier == "quick" else 100000, log)
    # three members with distinct ids, numbered against the order of creation: siblings whose list order is
    # not the order of their ids
    blobs += states([5000, -1, 3], 1, 1500 if tier == "quick" else 100000, log)[::3 if tier == "quick" else 1]
    if tier == "thorough":
        blobs += states([0, 2, 3, 0], 2, 4000, log)[::3]
    log("copy: %d reachable states of the real objects (%.0fs)" % (len(blobs), time.time() - t0))
    U0 = graph.Universe(ids, W)
    fails = []
    cov = {"states": len(blobs), "events": 0, "nontrivial": 0, "external": 0, "judge_states": 0, "samples": [],
           "flat": 0, "flat_drift": 0, "flat_drift_examples": []}
    # all blobs of one judge run must share the constants: split by universe size
    by_n = {}
    for b in blobs:
        U = pickle.loads(b)
        by_n.setdefault((tuple(U.ids), U.w), []).append(b)
    for (uids, W), bl in by_n.items():
        C = explore.consts(list(uids), W, graph.default_prio(len(uids)))
        wd, mod = tlc.prepare_judge("CopyTrace", C, "cp")
        try:
            jobs = 8
            per = max(1, -(-len(bl) // (jobs * 2)))
            chunks = [(bl[i:i + per], 1000000 * (i // per), wd, mod, i // per) for i in range(0, len(bl), per)]
            with mp.Pool(jobs) as pool:
                for r in pool.imap_unordered(_work, chunks):
                    cov["events"] += r["n"]
                    cov["nontrivial"] += r["nontrivial"]
                    cov["external"] += r["external"]
                    cov["judge_states"] += r["jstates"]
                    cov["flat"] += r["flat"]
                    cov["flat_drift"] += len(r["drift"])
                    cov["flat_drift_examples"] += [str(d)[:300] for d in r["drift"][:2] if len(cov["flat_drift_examples"]) < 4]
                    if r["sample"] and len(cov["samples"]) < 3:
                        s = r["sample"]
                        cov["samples"].append({"pre": {k: s["pre"][k] for k in ("ch", "pre", "own")}, "act": s["act"],
                                               "copy": {k: s["copy"][k] for k in ("src", "roots", "kids", "pre")}})
                    for e, clause, detail in r["fails"]:
                        fails.append({"property": "C10", "engine": "copy", "clause": clause, "kind": e["act"]["name"],
                                      "tags": [], "case": {"ids": list(uids), "W": W, "pre": e["pre"], "act": e["act"]},
                                      "text": "%s on ch=%s pre=%s: %s" % (e["act"], e["pre"]["ch"], e["pre"]["pre"], detail)})
        finally:
            import shutil
            shutil.rmtree(wd, ignore_errors=True)
    log("copy: %d clone/subtree calls judged, %d failing clauses; %d WBS(tasks=...) calls replayed, drift %d (%.0fs)"
        % (cov["events"] - cov["flat"], len(fails), cov["flat"], cov["flat_drift"], time.time() - t0))
    return {"engine": "copy", "tier": tier, "seed": seed, "wall_s": time.time() - t0, "fails": fails, "coverage": cov}


def rebuild(case):
    """a universe in the recorded projected state (links and hierarchy re-created through the API)"""
    U = graph.Universe(case["ids"], case["W"])
    dress(U)
    g = case["pre"]
    n = U.n

    def attach(node, lst):
        for c in lst:
            U.childlist(node).append(U.task(c))
            attach(c, g["ch"][c - 1])

    for node in range(n + 1, n + U.w + 1):
        attach(node, g["ch"][node - 1])
    listed = {c for l in g["ch"] for c in l}
    for t in range(1, n + 1):
        if t not in listed:
            attach(t, g["ch"][t - 1])
    for t in range(1, n + 1):
        if g["pre"][t - 1]:
            U.task(t).predecessors = [U.task(p) for p in g["pre"][t - 1]]
    return U


def replay(case, log):
    c = case["case"]
    common.pjplan()
    U = rebuild(c)
    evs = [e for e in events_of(pickle.dumps(U), 0, 0) if e["act"] == c["act"]]
    C = explore.consts(c["ids"], c["W"], graph.default_prio(len(c["ids"])))
    wd, mod = tlc.prepare_judge("CopyTrace", C, "cprp")
    try:
        j = tlc.judge_one(wd, mod, evs, 0)
    finally:
        import shutil
        shutil.rmtree(wd, ignore_errors=True)
    return sorted(set(t[2] for t in j["fails_full"]))


def evidence(prop, res):
    cov = res["coverage"]
    coverage = {
        "states": cov["judge_states"], "transitions": cov["judge_states"],
        "traces_validated_against_impl": cov["events"], "evaluations": cov["events"],
        "distinct_nontrivial": cov["nontrivial"],
        "rule": "every reachable state of the real objects in the universe ids (1,2,1) / 2 WBSs (hierarchy, links, "
                "links to outside tasks incl. one sharing an id with a member) x clone of every WBS x subtree for "
                "every selection of <= 2 member roots (nested and repeated included); non-trivial = non-empty copy; "
                "each (state, call) pair once",
        "samples": cov["samples"], "exhaustive": True,
        "copies_with_links_to_outside_tasks": cov["external"], "graph_states": cov["states"],
        "checker_cmd": "tlc CopyTrace.tla (with TaskGraph.tla)",
        "flat_constructor": {"calls_replayed": cov.get("flat", 0), "drift": cov.get("flat_drift", 0),
                             "examples": cov.get("flat_drift_examples", []),
                             "note": "WBS(tasks=seq) for every sequence of <= 2 universe tasks in every state, replayed "
                                     "against JudgeFlat of CopyTrace.tla; outside C10: differences are drift, never violations"},
    }
    return {"level": "model_checking", "coverage": coverage,
            "assumptions": ["TLC and the projection of the copy (public getters, object identity) are trusted",
                            "independence is probed with 10 fixed mutations per copy (5 per side), compared by the harness",
                            "nested / repeated root selections are judged on membership, freshness, owner and source only"]}
