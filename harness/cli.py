"""./check <ID> [--tier quick|thorough] [--replay path]

Exit 0: the property held on everything explored (KNOWN-FINDING lines allowed).
Exit 1: at least one `VIOLATION property=<id> replay=<path>` line was printed.
Exit 2: the machinery failed (TLC crash, harness exception) -- never a verdict.
"""
import argparse
import importlib
import json
import os
import sys
import time
import traceback

from . import common, engine

# property -> (engine module, design section)
ENGINES = {
    "C01": "eng_graph", "C05": "eng_graph", "C11": "eng_graph", "C15": "eng_graph", "C16": "eng_graph",
    "C17": "eng_calendar", "C12": "eng_crit", "C18": "eng_query", "C10": "eng_copy", "C13": "eng_csv", "C19": "eng_render", "C20": "eng_render",
    "C02": "eng_sched", "C03": "eng_sched", "C04": "eng_sched", "C06": "eng_sched", "C07": "eng_sched",
    "C08": "eng_sched", "C09": "eng_sched", "C14": "eng_sched",
}


def log(msg):
    sys.stderr.write("[check] %s\n" % msg)
    sys.stderr.flush()


def known_match(known, fail):
    for k in known.get("findings", []):
        if k.get("property") != fail["property"]:
            continue
        if k.get("clause") and k["clause"] != fail["clause"]:
            continue
        tag = k.get("tag")
        if tag and tag in fail.get("tags", []):
            return k
    return None


def main(argv=None):
    ap = argparse.ArgumentParser()
    ap.add_argument("prop")
    ap.add_argument("--tier", default=os.environ.get("VERIF_TIER") or "quick", choices=["quick", "thorough"])
    ap.add_argument("--replay")
    args = ap.parse_args(argv)
    prop = args.prop
    seed = common.seed()
    if prop not in ENGINES:
        print("unknown or unclaimed property %s" % prop)
        return 2
    mod = importlib.import_module("harness." + ENGINES[prop])
    t0 = time.time()
    try:
        if args.replay:
            with open(args.replay) as fh:
                case = json.load(fh)
            clauses = mod.replay(case, log)
            mine = [c for c in clauses if c.split(".")[0] == prop]
            for c in mine:
                print("VIOLATION property=%s replay=%s clause=%s" % (prop, args.replay, c))
            if not mine:
                print("replay: property %s holds on this case now (clauses failing for other properties: %s)"
                      % (prop, clauses))
            return 1 if mine else 0
        res = engine.cached_run(mod.__name__.split(".")[-1], args.tier, seed,
                                lambda: mod.run(args.tier, seed, log), log)
    except Exception:
        traceback.print_exc()
        print("MACHINERY-FAILURE property=%s (no verdict)" % prop)
        return 2

    known = engine.load_known()
    mine = [f for f in res["fails"] if f["property"] == prop]
    nviol = 0
    seen_known = set()
    shown = 0
    mine.sort(key=lambda f: len(f.get("history", [])))
    kinds = set()
    for f in mine:
        k = known_match(known, f)
        if k:
            if k["id"] not in seen_known:
                seen_known.add(k["id"])
                print("KNOWN-FINDING: property=%s %s" % (prop, k["text"]))
            continue
        nviol += 1
        kind = (f["clause"], f.get("kind") or (f["history"][-1]["name"] if f.get("history") else ""))
        if kind in kinds:
            continue
        kinds.add(kind)
        if shown < 12:
            shown += 1
            case = dict(f)
            path = engine.write_replay(prop, case)
            print("VIOLATION property=%s replay=%s clause=%s %s" % (prop, path, f["clause"], f.get("text", "")))
    if nviol > shown:
        print("(%d further violating cases of %s not listed: same clause and call kind, or over the cap)"
              % (nviol - shown, prop))
    ev = mod.evidence(prop, res)
    engine.write_evidence(prop, args.tier, seed, ev["level"], ev["coverage"], ev["assumptions"],
                          res["wall_s"], nviol)
    print("%s %s: %s (%d violations, %d known findings; engine run %.0fs%s)"
          % (prop, args.tier, "HELD" if nviol == 0 else "VIOLATED", nviol, len(seen_known), res["wall_s"],
             ", cached" if res.get("cached") else ""))
    return 1 if nviol else 0


if __name__ == "__main__":
    sys.exit(main())
