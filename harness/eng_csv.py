"""Engine `csv` (C13): write_csv / read_csv against spec/CsvIO.tla.

1. TLC checks the layout model itself: Parse(Rows(W)) ~ W and the fixpoint on every bounded world
   (MC_CsvIO).
2. Seeded worlds (any depth, ids including 0 and negatives, adversarial strings, boundary dates,
   fractional estimates, sparse custom attributes) are built through the public API, written with
   write_csv, the file is decoded into cells, re-read with read_csv, written/read again (fixpoint),
   and the same world is written by the harness's own writer in the documented layout (with and
   without BOM) and read with read_csv.  TLC compares every projection with the model.
The specification never looks inside a string: strings are indices into POOL.
"""
import csv
import datetime as _dt
import io
import os
import random
import shutil
import tempfile
import time
from fractions import Fraction

from . import common, tlc
from . import eng_sched as es

PROPS = ["C13"]
NONE = {"k": "none"}
POOL = ["", "alpha", "b;c", 'say "hi"', "line1\nline2", "crlf\r\nx", "ünï©ødé ✓ 日本", " lead and trail ",
        "$x {{y}} </script>", "5", "None", "True", "';--", "a,b\tc", "quote\"semi;nl\n",
        "C:\\tools\\bin", "ends with \\", "\\\"q;\\n"]
UNKNOWN_TEXT = 999
BASE = _dt.date(1969, 1, 1)
DATES = [_dt.date(1969, 1, 1), _dt.date(1999, 12, 31), _dt.date(2000, 1, 1), _dt.date(2068, 12, 31),
         _dt.date(2024, 2, 29), _dt.date(2031, 7, 4)]
FIXED = ["id", "name", "resource", "start", "end", "estimate", "spent", "milestone", "parent_id", "predecessor_ids"]


def text(i):
    return {"k": "text", "v": i}


def tcell(s):
    if s is None:
        return NONE
    s = str(s)
    return text(POOL.index(s)) if s in POOL else text(UNKNOWN_TEXT)


def dcell(d):
    if d is None:
        return NONE
    if isinstance(d, _dt.datetime):
        if (d.hour, d.minute, d.second, d.microsecond) != (0, 0, 0, 0):
            return {"k": "date", "v": -1}
        d = d.date()
    return {"k": "date", "v": (d - BASE).days}


def ncell(x):
    if x is None:
        return NONE
    if isinstance(x, bool):
        return {"k": "other"}
    fr = Fraction(str(x)) if isinstance(x, (int, float)) else None
    if fr is None:
        return {"k": "other"}
    if fr.denominator == 1:
        return {"k": "int", "v": int(fr)}
    return {"k": "num", "n": fr.numerator, "d": fr.denominator}


def gen_world(rng, n):
    tasks, roots = es.gen_structure(rng, n)
    ids = rng.sample(range(-3, 3 * n + 2), n)
    if rng.random() < 0.3:
        ids = [i + 1000 if i > 0 else i for i in ids]        # large numbers: equal ids are not the same int object
    if rng.random() < 0.5 and 0 not in ids:
        ids[rng.randrange(n)] = 0
    W = {"ids": ids, "par": [t["par"] for t in tasks], "kids": [t["kids"] for t in tasks], "roots": roots,
         "pre": [[] for _ in tasks], "f": [], "custom": []}
    for _ in range(rng.choice([0, 1, 2, 3])):
        s, p = rng.randint(1, n), rng.randint(1, n)
        if es.legal_link(tasks, s, p) and p not in tasks[s - 1]["pre"]:
            tasks[s - 1]["pre"].append(p)
            W["pre"][s - 1].append(p)
    cols = ["note", "prio", "Tag x", "print_color", "gantt_section"]     # incl. custom attributes the library itself reads
    for i in range(n):
        def tx():
            r = rng.random()
            return NONE if r < 0.2 else text(rng.randrange(len(POOL)))
        def dt():
            return NONE if rng.random() < 0.4 else dcell(rng.choice(DATES))
        def nm():
            return NONE if rng.random() < 0.3 else ncell(rng.choice([0, 1, 3, 2.5, 0.1, 0.25, 12, 7.75, 5e-05, 1e-05, 1234567.125]))   # incl. values whose text is in exponent notation
        W["f"].append({"name": tx(), "resource": tx(), "start": dt(), "end": dt(), "est": nm(), "spent": nm(),
                       "ms": rng.random() < 0.2, "minstart": dt() if rng.random() < 0.4 else NONE})
        cu = []
        for c in rng.sample(cols, rng.randint(0, 4)):
            r = rng.random()
            v = NONE if r < 0.15 else (ncell(rng.choice([5, 0])) if r < 0.3 else text(rng.randrange(len(POOL))))
            cu.append({"col": c, "v": v})
        W["custom"].append(cu)
    return W


def pyval(c):
    k = c["k"]
    if k == "none":
        return None
    if k == "text":
        return POOL[c["v"]]
    if k == "int":
        return c["v"]
    if k == "num":
        return c["n"] / c["d"]
    if k == "date":
        d = BASE + _dt.timedelta(days=c["v"])
        return common.FakeDT(d.year, d.month, d.day)
    raise ValueError(c)


def build(W):
    pj = common.pjplan()
    objs = []
    for i, f in enumerate(W["f"]):
        kw = {c["col"]: pyval(c["v"]) for c in W["custom"][i]}
        objs.append(pj.Task(W["ids"][i], name=pyval(f["name"]), resource=pyval(f["resource"]),
                            start=pyval(f["start"]), end=pyval(f["end"]), estimate=pyval(f["est"]),
                            spent=pyval(f["spent"]), milestone=f["ms"], min_start=pyval(f["minstart"]), **kw))
    w = pj.WBS()

    def attach(lst, numbers):
        for c in numbers:
            lst.append(objs[c - 1])
            attach(objs[c - 1].children, W["kids"][c - 1])

    attach(w.roots, W["roots"])
    for i, pre in enumerate(W["pre"]):
        if pre:
            objs[i].predecessors = [objs[p - 1] for p in pre]
    return w


# parent_id / predecessor_ids: read_csv leaves the raw row fields on the task objects as two more public
# attributes; they restate the hierarchy and the links, which are compared anyway, and are not custom content
STANDARD = {"name", "resource", "start", "end", "milestone", "min_start", "parent_id", "predecessor_ids"}


def project(w):
    """world of a WBS through public getters; custom values compare as strings"""
    ts = list(w.tasks)
    num = {id(t): i + 1 for i, t in enumerate(ts)}
    g = lambda x: num.get(id(x), 0)
    W = {"ids": [t.id if isinstance(t.id, int) else -99999 for t in ts],
         "par": [g(t.parent) if t.parent is not None else 0 for t in ts],
         "kids": [[g(c) for c in t.children] for t in ts], "roots": [g(t) for t in w.roots],
         "pre": [[g(p) for p in t.predecessors] for t in ts], "f": [], "custom": []}
    for t in ts:
        W["f"].append({"name": tcell(t.name), "resource": tcell(t.resource), "start": dcell(t.start), "end": dcell(t.end),
                       "est": ncell(t.estimate), "spent": ncell(t.spent), "ms": t.milestone is True,
                       "minstart": dcell(t.min_start) if not isinstance(t.min_start, str) else {"k": "other"}})
        cu = []
        for k, v in t.__dict__.items():
            if k.startswith("_") or k in STANDARD:
                continue
            cu.append({"col": k, "v": NONE if v is None else tcell(v)})
        W["custom"].append(cu)
    return W


def as_text_world(W):
    """the written world with custom values as strings (that is how they compare)"""
    import copy
    V = copy.deepcopy(W)
    for cu in V["custom"]:
        for c in cu:
            if c["v"]["k"] in ("int", "num"):
                c["v"] = tcell(pyval(c["v"]))
    return V


def decode_file(path):
    with open(path, "r", encoding="utf-8", newline="") as fh:
        data = fh.read()
    rows = list(csv.reader(io.StringIO(data, newline=""), delimiter=";"))
    header = [h.replace("﻿", "") for h in rows[0]] if rows else []
    out = []
    for r in rows[1:]:
        cells = []
        for h, v in zip(header, r):
            if h == "id" or h == "parent_id":
                cells.append(NONE if v == "" else {"k": "int", "v": int(v)} if _isint(v) else {"k": "other"})
            elif h in ("name", "resource"):
                cells.append(tcell(v))
            elif h in ("start", "end"):
                cells.append(NONE if v == "" else _date(v, "%d.%m.%y"))
            elif h in ("estimate", "spent"):
                cells.append(NONE if v == "" else _num(v))
            elif h == "milestone":
                cells.append({"k": "bool", "v": v == "True"} if v in ("True", "False") else {"k": "other"})
            elif h == "predecessor_ids":
                cells.append({"k": "ids", "v": [int(x) for x in v.split(";")] if v else []}
                             if all(_isint(x) for x in v.split(";") if v) else {"k": "other"})
            elif h == "min_start":
                cells.append(NONE if v in ("", "None") else _date(v[:10], "%Y-%m-%d"))
            else:
                cells.append(tcell(v))
        while len(cells) < len(r):
            cells.append({"k": "other"})
        out.append(cells)
    return {"header": header, "rows": out}


def _isint(v):
    try:
        int(v)
        return True
    except ValueError:
        return False


def _date(v, fmt):
    try:
        return dcell(_dt.datetime.strptime(v, fmt).date())
    except ValueError:
        return {"k": "other"}


def _num(v):
    try:
        return ncell(float(v)) if "." in v or "e" in v.lower() else ncell(int(v))
    except ValueError:
        return {"k": "other"}


def hand_write(W, path, bom):
    """the documented layout, written independently of pjplan"""
    cols = []
    for cu in W["custom"]:
        for c in cu:
            if c["col"] not in cols:
                cols.append(c["col"])
    has_min = any(f["minstart"] != NONE for f in W["f"])
    header = FIXED + (["min_start"] if has_min else []) + cols
    buf = io.StringIO(newline="")
    wr = csv.writer(buf, delimiter=";", lineterminator="\r\n")
    wr.writerow(header)
    for i, f in enumerate(W["f"]):
        def d(c, fmt):
            return "" if c == NONE else pyval(c).strftime(fmt)
        def s(c):
            v = pyval(c)
            return "" if v is None else str(v)
        row = [W["ids"][i], s(f["name"]), s(f["resource"]), d(f["start"], "%d.%m.%y"), d(f["end"], "%d.%m.%y"),
               s(f["est"]), s(f["spent"]), "True" if f["ms"] else "False",
               "" if W["par"][i] == 0 else W["ids"][W["par"][i] - 1],
               ";".join(str(W["ids"][p - 1]) for p in W["pre"][i])]
        if has_min:
            row.append("" if f["minstart"] == NONE else pyval(f["minstart"]).strftime("%Y-%m-%d %H:%M:%S"))
        cu = {c["col"]: c["v"] for c in W["custom"][i]}
        row += [s(cu[c]) if c in cu else "" for c in cols]
        wr.writerow(row)
    with open(path, "w", encoding="utf-8-sig" if bom else "utf-8", newline="") as fh:
        fh.write(buf.getvalue())


def edit_and_roundtrip(pj, w, path):
    """move the last task below the first root (or to root level), replace one predecessor list; then
    write and read; returns (projection of the edited WBS, projection of what was read back)"""
    ts = list(w.tasks)
    if len(ts) >= 2:
        last, first = ts[-1], ts[0]
        try:
            if last.parent is not None:
                last.parent = None
            elif last is not first and first not in last.all_children:
                last.predecessors = []
                last.successors = []
                last.parent = first
        except RuntimeError:
            pass
        try:
            ts[1].predecessors = [ts[0]] if ts[0] not in ts[1].all_parents and ts[0] not in ts[1].all_children \
                and ts[1] not in ts[0].all_predecessors else []
        except RuntimeError:
            pass
    # an attribute that was not a column of the file the WBS came from (the writer must look at the tasks, not at
    # what the reader saw), and a column of that file cleared on every task but the first
    if ts:
        ts[-1].addedlate = "x7"
        ts[0].addedfirst = "y8"
    edited = project(w)
    pj.write_csv(w, path)
    back = project(pj.read_csv(path))
    try:
        os.unlink(path)
    except OSError:
        pass
    return edited, back


EMPTY_W = {"ids": [], "par": [], "kids": [], "roots": [], "pre": [], "f": [], "custom": []}


def execute(ev, tmp):
    pj = common.pjplan()
    W = ev["W0"]
    ev["W"] = as_text_world(W)
    ev.update({"F": {"header": [], "rows": []}, "W2": EMPTY_W, "Wh": EMPTY_W, "Wb": EMPTY_W, "fix": False, "out": "ok",
               "We": EMPTY_W, "W3": EMPTY_W})
    p1, p2, p3, ph, pb = [os.path.join(tmp, "%d_%s.csv" % (ev["id"], x)) for x in ("1", "2", "3", "h", "b")]
    try:
        w = build(W)
        pj.write_csv(w, p1)
        ev["F"] = decode_file(p1)
        w2 = pj.read_csv(p1)
        ev["W2"] = project(w2)
        pj.write_csv(w2, p2)
        w3 = pj.read_csv(p2)
        pj.write_csv(w3, p3)
        ev["fix"] = open(p2, "rb").read() == open(p3, "rb").read()
        # history: the re-read WBS is EDITED (hierarchy and dependencies), written and read again
        ev["We"], ev["W3"] = edit_and_roundtrip(pj, w3, os.path.join(tmp, "%d_e.csv" % ev["id"]))
        hand_write(W, ph, False)
        ev["Wh"] = project(pj.read_csv(ph))
        hand_write(W, pb, True)
        ev["Wb"] = project(pj.read_csv(pb))
    except RecursionError:
        ev["out"] = "RecursionError"
    except Exception as x:
        ev["out"] = "%s: %s" % (type(x).__name__, str(x)[:80])
    for p in (p1, p2, p3, ph, pb):
        try:
            os.unlink(p)
        except OSError:
            pass
    del ev["W0"]
    return ev


def run(tier, seed, log):
    t0 = time.time()
    common.pjplan()
    n_mc, ntext = (2, 4) if tier == "quick" else (3, 3)
    mc = tlc.run_model("MC_CsvIO", {"N": n_mc, "NTEXT": ntext}, {}, "mccsv",
                       invariants=["RoundTrip", "Fixpoint", "OneRowPerTask"], workers=16, timeout=3000)
    if not mc["ok"]:
        raise tlc.TlcError("MC_CsvIO failed: %s\n%s" % (tlc.violated(mc["out"]), mc["out"][-2000:]))
    log("MC_CsvIO N=%d: %d worlds, Parse(Rows(W)) ~ W and fixpoint hold (%.0fs)" % (n_mc, mc["stats"]["distinct"], mc["wall"]))
    rng = random.Random(seed * 13 + 1)
    n = 2500 if tier == "quick" else 40000
    tmp = tempfile.mkdtemp(prefix="csv-", dir=common.WORK)
    try:
        events = []
        for i in range(n):
            ev = {"id": i, "W0": gen_world(rng, rng.choice([1, 2, 3, 3, 4, 5, 6]))}
            events.append(execute(ev, tmp))
    finally:
        shutil.rmtree(tmp, ignore_errors=True)
    log("csv: %d worlds written and read (%.0fs)" % (len(events), time.time() - t0))
    jobs = 8
    per = max(100, min(3000, -(-len(events) // jobs)))
    j = tlc.judge_batches("CsvTrace", {}, [events[i:i + per] for i in range(0, len(events), per)], "csv", jobs=jobs)
    fails = []
    for t in j["fails_full"]:
        e = events[t[1]]
        fails.append({"property": "C13", "engine": "csv", "clause": t[2], "kind": "", "tags": tags_of(e, t[2]),
                      "case": {"id": e["id"], "W": e["W"]}, "text": "%d tasks: %s" % (len(e["W"]["ids"]), str(t[3])[:80])})
    nontriv = sum(1 for e in events if len(e["W"]["ids"]) >= 2)
    cov = {"events": len(events), "nontrivial": nontriv, "judge_states": j["states"],
           "mc_states": mc["stats"]["distinct"], "mc_transitions": mc["stats"]["generated"],
           "samples": [{"W": e["W"], "header": e["F"]["header"]} for e in events[5:7]]}
    return {"engine": "csv", "tier": tier, "seed": seed, "wall_s": time.time() - t0, "fails": fails, "coverage": cov}


def tags_of(e, clause):
    return []


def replay(case, log):
    common.pjplan()
    tmp = tempfile.mkdtemp(prefix="csv-", dir=common.WORK)
    try:
        ev = execute({"id": 0, "W0": case["case"]["W"]}, tmp)
    finally:
        shutil.rmtree(tmp, ignore_errors=True)
    j = tlc.judge_batches("CsvTrace", {}, [[ev]], "csvrp", jobs=1)
    return sorted(set(t[2] for t in j["fails_full"]))


def evidence(prop, res):
    cov = res["coverage"]
    coverage = {
        "states": cov["mc_states"] + cov["judge_states"], "transitions": cov["mc_transitions"] + cov["judge_states"],
        "traces_validated_against_impl": cov["events"], "evaluations": cov["events"],
        "distinct_nontrivial": cov["nontrivial"],
        "rule": "seeded worlds of 1-6 tasks (any depth, ids incl. 0 and negatives, predecessor lists, adversarial "
                "strings from a pool of %d, boundary dates 1969-2068, fractional estimates, sparse custom attributes); "
                "each is written, decoded, re-read, re-written twice (fixpoint) and also written by the harness's own "
                "writer with and without BOM; non-trivial = at least 2 tasks" % len(POOL),
        "samples": cov["samples"], "exhaustive": False,
        "layout_model": "MC_CsvIO: Parse(Rows(W)) ~ W and fixpoint on %d bounded worlds" % cov["mc_states"],
        "checker_cmd": "tlc MC_CsvIO.tla; tlc CsvTrace.tla",
    }
    return {"level": "model_checking", "coverage": coverage,
            "assumptions": ["TLC, the world builder/projection and the cell decoder (Python's csv module, strptime, "
                            "float parsing) are trusted",
                            "the specification decides the structural mapping (rows, cells, ids, order); character-level "
                            "quoting and date/number text are exercised by adversarial pool strings, not modelled",
                            "domain of C13: integer ids, links inside the WBS, day-precision dates 1969-2068"]}
