"""Running TLC: wrapper-module generation, batching, output parsing.

TLC is the judge; this module only ferries data.  Exit status / crashes of TLC are turned into
TlcError (machinery failure, exit 2 at the CLI), never into a verdict.
"""
import json
import os
import re
import shutil
import subprocess
import tempfile
import time
from concurrent.futures import ThreadPoolExecutor

from . import common

JAR = "/opt/veriftools/tla/tla2tools.jar:/opt/veriftools/tla/CommunityModules-deps.jar"


class TlcError(Exception):
    pass


def tla_value(v):
    """Python value -> TLA+ literal (ints, bools, strings, lists -> tuples, sets -> sets)."""
    if isinstance(v, bool):
        return "TRUE" if v else "FALSE"
    if isinstance(v, int):
        return str(v)
    if isinstance(v, str):
        return json.dumps(v)
    if isinstance(v, (list, tuple)):
        return "<<" + ", ".join(tla_value(x) for x in v) + ">>"
    if isinstance(v, (set, frozenset)):
        return "{" + ", ".join(tla_value(x) for x in sorted(v)) + "}"
    if isinstance(v, dict):
        return "[" + ", ".join("%s |-> %s" % (k, tla_value(x)) for k, x in v.items()) + "]"
    if hasattr(v, "s"):           # a set of tuples (sets of unorderable python values)
        return "{" + ", ".join(tla_value(list(x)) for x in sorted(v.s)) + "}"
    raise TypeError(type(v))


def workdir(tag):
    os.makedirs(common.WORK, exist_ok=True)
    return tempfile.mkdtemp(prefix=tag + "-", dir=common.WORK)


def run_tlc(module_dir, module, cfg, env=None, workers=1, extra=(), timeout=3600, heap="768m", light=True):
    """Run TLC on module_dir/module.tla with cfg; returns (stdout, wall seconds)."""
    meta = os.path.join(module_dir, "meta")
    gc = ["-XX:+UseSerialGC", "-XX:CICompilerCount=2"] if light else ["-XX:+UseParallelGC"]
    cmd = ["java"] + gc + ["-Xmx" + heap, "-Xss64m", "-cp", JAR, "tlc2.TLC",
           "-workers", str(workers), "-metadir", meta, "-noGenerateSpecTE",
           "-config", cfg] + list(extra) + [module]
    e = dict(os.environ)
    e.pop("JAVA_TOOL_OPTIONS", None)
    if env:
        e.update(env)
    t0 = time.time()
    try:
        p = subprocess.run(cmd, cwd=module_dir, env=e, stdout=subprocess.PIPE, stderr=subprocess.STDOUT,
                           timeout=timeout, text=True)
    except subprocess.TimeoutExpired as ex:
        raise TlcError("TLC timeout after %ss: %s" % (timeout, " ".join(cmd))) from ex
    return p.stdout, time.time() - t0, p.returncode


_STATS = re.compile(r"(\d+) states generated, (\d+) distinct states found, (\d+) states left on queue")


def parse_stats(out):
    m = None
    for m in _STATS.finditer(out):
        pass
    if not m:
        return None
    return {"generated": int(m.group(1)), "distinct": int(m.group(2)), "queue": int(m.group(3))}


def tuples(out, head):
    """Yield the python form of every printed tuple <<"head", ...>> in TLC's output.

    TLC pretty-prints a value that does not fit on one line over several lines (`<< "FAIL",` / `   12,` ...), so
    the output is scanned for the opening of such a tuple and parsed from there by bracket matching."""
    import re
    for m in re.finditer(r'<<\s*"%s"' % re.escape(head), out):
        # only at the start of a line: the same text inside a printed string or a nested value is not a report
        ls = out.rfind("\n", 0, m.start()) + 1
        if out[ls:m.start()].strip():
            continue
        try:
            yield parse_tla(out[m.start():], prefix=True)
        except (ValueError, IndexError):
            # a detail value this parser does not know (a record, say): the report itself must not be lost
            m2 = re.match(r'<<\s*"%s"\s*,\s*(-?\d+)\s*,\s*"([^"]*)"' % re.escape(head), out[m.start():])
            if not m2:
                raise TlcError("unreadable %s report in TLC output near: %r" % (head, out[m.start():m.start() + 300]))
            yield [head, int(m2.group(1)), m2.group(2), out[m.start():m.start() + 200]]


def parse_tla(s, prefix=False):
    """Tiny parser for printed TLA+ values made of tuples, ints, strings, booleans."""
    pos = 0

    def ws():
        nonlocal pos
        while pos < len(s) and s[pos] in " \n\t":
            pos += 1

    def val():
        nonlocal pos
        ws()
        if s.startswith("<<", pos):
            pos += 2
            items = []
            ws()
            if s.startswith(">>", pos):
                pos += 2
                return items
            while True:
                items.append(val())
                ws()
                if s.startswith(">>", pos):
                    pos += 2
                    return items
                if s[pos] == ",":
                    pos += 1
                else:
                    raise ValueError("bad tuple at %d in %r" % (pos, s))
        if s[pos] == "{":
            pos += 1
            items = []
            ws()
            if s[pos] == "}":
                pos += 1
                return items
            while True:
                items.append(val())
                ws()
                if s[pos] == "}":
                    pos += 1
                    return items
                if s[pos] == ",":
                    pos += 1
                else:
                    raise ValueError("bad set at %d in %r" % (pos, s))
        if s[pos] == '"':
            j = pos + 1
            while s[j] != '"':
                if s[j] == "\\":
                    j += 1
                j += 1
            r = json.loads(s[pos:j + 1])
            pos = j + 1
            return r
        m = re.match(r"-?\d+", s[pos:])
        if m:
            pos += len(m.group(0))
            return int(m.group(0))
        for lit, v in (("TRUE", True), ("FALSE", False)):
            if s.startswith(lit, pos):
                pos += len(lit)
                return v
        raise ValueError("cannot parse %r at %d" % (s, pos))

    return val()


def prepare_judge(spec_module, const_defs, tag, invariants=("Done",), spec="Spec", extra_cfg=()):
    """Create a work directory holding the specs, a wrapper module with literal constants and a cfg."""
    wd = workdir(tag)
    for f in os.listdir(common.SPEC):
        if f.endswith(".tla"):
            shutil.copy(os.path.join(common.SPEC, f), wd)
    mod = "J_" + spec_module
    lines = ["---- MODULE %s ----" % mod, "EXTENDS %s" % spec_module]
    for name, v in const_defs.items():
        lines.append("c_%s == %s" % (name, tla_value(v)))
    lines.append("====")
    with open(os.path.join(wd, mod + ".tla"), "w") as fh:
        fh.write("\n".join(lines) + "\n")
    cfg = ["SPECIFICATION " + spec, "CHECK_DEADLOCK FALSE"]
    if const_defs:
        cfg.append("CONSTANTS")
        for name in const_defs:
            cfg.append("  %s <- c_%s" % (name, name))
    for inv in invariants:
        cfg.append("INVARIANT %s" % inv)
    cfg.extend(extra_cfg)
    with open(os.path.join(wd, mod + ".cfg"), "w") as fh:
        fh.write("\n".join(cfg) + "\n")
    return wd, mod


def judge_one(wd, mod, events, idx, timeout=3600, heap="768m"):
    """Judge one batch of events with one TLC run.  Returns dict(fails, judged, states, wall)."""
    bdir = os.path.join(wd, "b%s" % idx)
    os.makedirs(bdir)
    tf = os.path.join(bdir, "trace.json")
    with open(tf, "w") as fh:
        json.dump(events, fh, separators=(",", ":"))
    for f in os.listdir(wd):
        if f.endswith((".tla", ".cfg")):
            os.symlink(os.path.join(wd, f), os.path.join(bdir, f))
    out, wall, rc = run_tlc(bdir, mod, mod + ".cfg", env={"TRACE_FILE": tf}, workers=1, timeout=timeout,
                            heap=heap)
    done = list(tuples(out, "JUDGED"))
    if rc != 0 or not done or done[0][1] != len(events):
        keep = os.path.join(common.WORK, "failed-judge-%d.out" % os.getpid())
        with open(keep, "w") as fh:
            fh.write(out)
        raise TlcError("judge batch %s failed (rc=%s), output kept in %s:\n%s" % (idx, rc, keep, out[-3000:]))
    st = parse_stats(out)
    full = list(tuples(out, "FAIL"))
    fails = [(t[1], t[2]) for t in full]
    shutil.rmtree(bdir, ignore_errors=True)
    return {"fails": fails, "fails_full": full, "judged": done[0][1], "states": st["distinct"] if st else 0,
            "wall": wall}


def judge_batches(spec_module, const_defs, batches, tag, invariants=("Done",), jobs=16, timeout=3600):
    """Run one TLC instance per batch (threads; each TLC is its own process)."""
    wd, mod = prepare_judge(spec_module, const_defs, tag, invariants)
    try:
        t0 = time.time()
        with ThreadPoolExecutor(max_workers=jobs) as ex:
            results = list(ex.map(lambda i: judge_one(wd, mod, batches[i], i, timeout), range(len(batches))))
        fails, full, judged, states = [], [], 0, 0
        for r in results:
            fails.extend(r["fails"])
            full.extend(r["fails_full"])
            judged += r["judged"]
            states += r["states"]
        return {"fails": fails, "fails_full": full, "judged": judged, "states": states, "wall": time.time() - t0}
    finally:
        shutil.rmtree(wd, ignore_errors=True)


def run_model(module, const_lits, const_defs, tag, invariants=(), properties=(), view=None, spec="Spec",
              workers=16, timeout=3600, heap="6g", extra=(), constraint=None, simulate=None):
    """Model-check /verif/spec/<module>.tla with literal constants.

    const_lits: name -> int/bool/str written straight into the cfg
    const_defs: name -> python value emitted as a definition in a wrapper module
    Returns dict(out, stats, wall, rc, ok).
    """
    wd = workdir(tag)
    try:
        for f in os.listdir(common.SPEC):
            if f.endswith(".tla"):
                shutil.copy(os.path.join(common.SPEC, f), wd)
        mod = "M_" + module
        lines = ["---- MODULE %s ----" % mod, "EXTENDS %s" % module]
        for name, v in const_defs.items():
            lines.append("c_%s == %s" % (name, tla_value(v)))
        lines.append("====")
        with open(os.path.join(wd, mod + ".tla"), "w") as fh:
            fh.write("\n".join(lines) + "\n")
        cfg = ["SPECIFICATION " + spec, "CHECK_DEADLOCK FALSE", "CONSTANTS"]
        for name, v in const_lits.items():
            cfg.append("  %s = %s" % (name, tla_value(v)))
        for name in const_defs:
            cfg.append("  %s <- c_%s" % (name, name))
        if view:
            cfg.append("VIEW " + view)
        if constraint:
            cfg.append("CONSTRAINT " + constraint)
        for inv in invariants:
            cfg.append("INVARIANT " + inv)
        for p in properties:
            cfg.append("PROPERTY " + p)
        with open(os.path.join(wd, mod + ".cfg"), "w") as fh:
            fh.write("\n".join(cfg) + "\n")
        ex = list(extra)
        if simulate:
            ex = ["-simulate", simulate] + ex
        out, wall, rc = run_tlc(wd, mod, mod + ".cfg", workers=workers, timeout=timeout, heap=heap,
                                light=False, extra=ex)
        ok = "Model checking completed. No error has been found." in out or \
             (simulate is not None and rc == 0)
        return {"out": out, "stats": parse_stats(out), "wall": wall, "rc": rc, "ok": ok}
    finally:
        shutil.rmtree(wd, ignore_errors=True)


def violated(out):
    """Names of invariants / properties TLC reports as violated."""
    names = re.findall(r"Invariant (\S+) is violated", out)
    names += re.findall(r"Action property (\S+) is violated", out)
    names += re.findall(r"Temporal properties were violated", out)
    return names
