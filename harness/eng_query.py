"""Engine `query` (C18): task_list(**filters), task_list(callable), bulk assignment, remove_all.

Worlds (one WBS of up to 5 tasks, attribute populations with present / absent / None values) are
built through the public API; every list of the API is queried with single filters (all twelve
suffixes and plain equality, for every attribute kind), pairs of filters and callables; the model
answer comes from spec/Query.tla (including its own regular-expression search), judged by TLC.
"""
import random
import time

from . import common, tlc
from . import eng_sched as es

PROPS = ["C18"]
ABSENT = {"k": "absent"}
NONE = {"k": "none"}
ALPHA = {1: "a", 2: "b"}
SUFFIX = {"eq": "", "in": "_in_", "not_in": "_not_in_", "is_none": "_is_none_", "is_not_none": "_is_not_none_",
          "ne": "_ne_", "lt": "_lt_", "le": "_le_", "gt": "_gt_", "ge": "_ge_", "like": "_like_",
          "not_like": "_not_like_"}
# "margin" ends like the suffix "_in_" does, "alias_" ends in the separator: suffixes are cut off, never stripped
INT_ATTRS = ["id", "parent_id", "prio", "margin"]
STR_ATTRS = ["tag", "name", "alias_"]
CUSTOM = ["prio", "tag", "name", "zz", "margin", "alias_", "index"]     # "index": also a member of the list class


def iv(i):
    return {"k": "int", "v": i}


def sv(seq):
    return {"k": "str", "v": list(seq)}


def py(v):
    if v["k"] == "int":
        return v["v"]
    if v["k"] == "str":
        return "".join(ALPHA[c] for c in v["v"])
    return None


def rand_str(rng):
    return sv([rng.choice([1, 2]) for _ in range(rng.randint(0, 3))])


def gen_world(rng, n):
    tasks, roots = es.gen_structure(rng, n)
    ids = rng.sample(range(0, 2 * n + 1), n)
    if rng.random() < 0.3:
        ids = [i + 1000 if i > 0 else i for i in ids]        # large numbers: equal ids are not the same int object
    attrs = []
    for i in range(n):
        a = {"prio": iv(rng.randint(0, 2)), "zz": ABSENT, "index": ABSENT}
        a["margin"] = ABSENT if rng.random() < 0.4 else (NONE if rng.random() < 0.2 else iv(rng.randint(0, 2)))
        a["alias_"] = ABSENT if rng.random() < 0.5 else (NONE if rng.random() < 0.2 else rand_str(rng))
        r = rng.random()
        a["tag"] = ABSENT if r < 0.3 else (NONE if r < 0.45 else rand_str(rng))
        a["name"] = NONE if rng.random() < 0.25 else rand_str(rng)
        # a custom attribute that happens to be called like the pseudo-attribute parent_id (left behind by an
        # import, say) with a value that is NOT the parent's id: filters on parent_id mean the real parent
        a["stale"] = iv(rng.randint(0, 2 * n)) if rng.random() < 0.3 else ABSENT
        attrs.append(a)
    pre = [[] for _ in tasks]
    for _ in range(rng.choice([0, 1, 2, 3, 4])):
        a, b = rng.randint(1, n), rng.randint(1, n)
        if es.legal_link(tasks, a, b) and b not in tasks[a - 1]["pre"]:
            tasks[a - 1]["pre"].append(b)
            pre[a - 1].append(b)
    W = {"par": [t["par"] for t in tasks], "kids": [t["kids"] for t in tasks], "roots": roots, "ids": ids,
         "attrs": attrs, "pre": pre, "suc": [], "nm": n}
    # tasks OUTSIDE the WBS (numbers n+1..: members of another WBS or free-standing), linked to members; their ids
    # may equal a member's id - link lists then hold two different tasks with equal ids
    W["hot"] = 0
    if rng.random() < 0.3:
        for k in range(rng.choice([1, 2])):
            twin = rng.randint(1, n)                 # the member whose id (and most attributes) the outside task shares
            collide = rng.random() < 0.7
            W["ids"].append(ids[twin - 1] if collide else 2 * n + 3 + k)
            W["par"].append(0)
            W["kids"].append([])
            W["pre"].append([])
            a = dict(attrs[twin - 1])
            a["prio"] = iv(a["prio"]["v"] + 1)       # ... but not all: filters can tell the two apart
            attrs.append(a)
            x = len(W["ids"])
            m = rng.randint(1, n)
            if rng.random() < 0.5:
                W["pre"][m - 1].append(x)            # the outside task precedes a member
                if collide and es.legal_link(tasks, m, twin) and twin not in W["pre"][m - 1]:
                    tasks[m - 1]["pre"].append(twin)
                    W["pre"][m - 1].append(twin)     # ... next to its twin
            else:
                W["pre"][x - 1].append(m)            # ... or waits for one
                if collide and es.legal_link(tasks, twin, m) and m not in W["pre"][twin - 1]:
                    tasks[twin - 1]["pre"].append(m)
                    W["pre"][twin - 1].append(m)
            W["hot"] = m
    return W


def build(W):
    pj = common.pjplan()
    n = len(W["ids"])
    objs = []
    for i in range(n):
        a = W["attrs"][i]
        kw = {"prio": py(a["prio"])}
        for nm in ("tag", "margin", "alias_"):
            if a[nm]["k"] != "absent":
                kw[nm] = py(a[nm])
        if a.get("stale", ABSENT)["k"] != "absent":
            kw["parent_id"] = py(a["stale"])
        objs.append(pj.Task(int(str(W["ids"][i])), name=py(a["name"]), **kw))
    w = pj.WBS()

    def attach(lst, numbers):
        for c in numbers:
            lst.append(objs[c - 1])
            attach(objs[c - 1].children, W["kids"][c - 1])

    attach(w.roots, W["roots"])
    other = pj.WBS()
    for x in range(W.get("nm", n) + 1, n + 1):
        if x % 2:
            other.roots.append(objs[x - 1])
    for i, pre in enumerate(W["pre"]):
        if pre:
            objs[i].predecessors = [objs[p - 1] for p in pre]
    num = {id(o): i + 1 for i, o in enumerate(objs)}
    W["suc"] = [[num[id(x)] for x in o.successors] for o in objs]      # list order as the API reports it
    return w, objs


def value_of(t, name):
    if name not in t.__dict__:
        return ABSENT
    v = t.__dict__[name]
    if v is None:
        return NONE
    if isinstance(v, bool):
        return {"k": "other"}
    if isinstance(v, int):
        return iv(v)
    if isinstance(v, str) and all(c in "ab" for c in v):
        return sv([1 if c == "a" else 2 for c in v])
    return {"k": "other"}


def to_value(v):
    if v is None:
        return NONE
    if isinstance(v, bool):
        return {"k": "other"}
    if isinstance(v, int):
        return iv(v)
    if isinstance(v, str) and all(c in "ab" for c in v):
        return sv([1 if c == "a" else 2 for c in v])
    return {"k": "other"}


def project(w, objs):
    num = {id(o): i + 1 for i, o in enumerate(objs)}
    g = lambda x: num.get(id(x), 0)
    return {"par": [g(o.parent) if o.parent is not None else 0 for o in objs],
            "kids": [[g(c) for c in o.children] for o in objs], "roots": [g(c) for c in w.roots],
            "ids": [o.id for o in objs],
            "pre": [[g(p) for p in o.predecessors] for o in objs],
            "suc": [[g(p) for p in o.successors] for o in objs],
            "attrs": [dict({nm: value_of(o, nm) for nm in CUSTOM}, stale=value_of(o, "parent_id")) for o in objs],
            "nm": sum(1 for o in objs if o.wbs is w)}


def the_list(w, objs, l):
    if l["kind"] == "roots":
        return w.roots
    if l["kind"] == "tasks":
        return w.tasks
    if l["kind"] == "children":
        return objs[l["t"] - 1].children
    if l["kind"] == "all_children":
        return objs[l["t"] - 1].all_children
    if l["kind"] == "preds":
        return objs[l["t"] - 1].predecessors
    if l["kind"] == "succs":
        return objs[l["t"] - 1].successors
    return w


CALLABLES = {"true": lambda t: True, "false": lambda t: False, "leaf": lambda t: len(t.children) == 0,
             "id_gt_1": lambda t: t.id > 1, "has_tag": lambda t: getattr(t, "tag", None) is not None}


def gen_filter(rng, W):
    attr = rng.choice(INT_ATTRS + STR_ATTRS + ["zz"])
    is_int = attr in INT_ATTRS
    ops = ["eq", "in", "not_in", "is_none", "is_not_none", "ne", "lt", "le", "gt", "ge"]
    if not is_int:
        ops += ["like", "not_like", "like"]
    op = rng.choice(ops)

    def val():
        if attr == "zz":
            return rng.choice([iv(1), NONE, sv([1])])
        if is_int:
            return iv(rng.choice(W["ids"] + [0, 1, 2, 99]))
        return rand_str(rng)

    if op in ("in", "not_in"):
        arg = [rng.choice([val(), NONE]) if rng.random() < 0.2 else val() for _ in range(rng.randint(0, 2))]
    elif op in ("is_none", "is_not_none"):
        arg = iv(1)
    elif op in ("like", "not_like"):
        arg = [rng.choice([10, 11, 12, 1, 2, 1, 2]) for _ in range(rng.randint(0, 3))]
    elif op == "eq":
        arg = NONE if rng.random() < 0.2 else val()
    else:
        arg = val()
        if arg["k"] == "none":
            arg = iv(1)
    return {"attr": attr, "op": op, "arg": arg}


def kwargs_of(filters):
    kw = {}
    for f in filters:
        key = f["attr"] + SUFFIX[f["op"]]
        if f["op"] in ("in", "not_in"):
            kw[key] = [py(v) for v in f["arg"]]
        elif f["op"] in ("like", "not_like"):
            kw[key] = "".join({10: "^", 11: "$", 12: ".", 1: "a", 2: "b"}[a] for a in f["arg"])
        elif f["op"] in ("is_none", "is_not_none"):
            kw[key] = True
        else:
            kw[key] = py(f["arg"])
    return kw


def gen_event(rng, eid, kind=None):
    n = rng.choice([1, 2, 3, 3, 4, 4, 5])
    W = gen_world(rng, n)
    kind = kind or rng.choice(["select"] * 10 + ["bulkset", "removeall", "removeall"] * 2 + ["order", "column", "index"])
    if kind == "removeall":
        l = rng.choice([{"kind": "roots", "t": 0}, {"kind": "wbs", "t": 0},
                        {"kind": "children", "t": rng.randint(1, n)}, {"kind": "preds", "t": rng.randint(1, n)},
                        {"kind": "succs", "t": rng.randint(1, n)}])
    else:
        l = rng.choice([{"kind": "roots", "t": 0}, {"kind": "tasks", "t": 0},
                        {"kind": "children", "t": rng.randint(1, n)}, {"kind": "all_children", "t": rng.randint(1, n)},
                        {"kind": "preds", "t": rng.randint(1, n)}, {"kind": "succs", "t": rng.randint(1, n)}])
    hot = W.pop("hot")
    if hot and rng.random() < 0.5:          # the link lists that hold tasks from outside the WBS
        l = {"kind": rng.choice(["preds", "succs"]), "t": hot}
        if kind in ("select", "bulkset") and rng.random() < 0.5:
            kind = "removeall"
    if rng.random() < 0.15:
        qry = {"callable": rng.choice(sorted(CALLABLES)), "filters": []}
    else:
        fs = [gen_filter(rng, W)]
        if rng.random() < 0.35:
            f2 = gen_filter(rng, W)
            if (f2["attr"], f2["op"]) != (fs[0]["attr"], fs[0]["op"]):
                fs.append(f2)
        if rng.random() < 0.03:
            fs = []
        qry = {"callable": "", "filters": fs}
    ev = {"id": eid, "kind": kind, "W": W, "list": l, "qry": qry, "attr": "tag", "value": NONE}
    # the list protocol beside queries (outside C18: differences are reported as drift, never as violations)
    if kind == "order":
        ev["key"], ev["rev"] = rng.choice(["prio", "id"]), rng.random() < 0.5
    elif kind == "column":
        ev["attr"] = rng.choice(["prio", "tag", "name", "zz"])
    elif kind == "index":
        ev["probe"] = rng.randint(1, n)
    if kind == "bulkset":
        ev["attr"] = rng.choice(["tag", "prio", "name", "index", "margin"])
        ev["value"] = iv(rng.randint(5, 7)) if ev["attr"] in ("prio", "index", "margin") else rng.choice([NONE, sv([2, 2, 1])])
    return ev


def execute(ev):
    w, objs = build(ev["W"])
    num = {id(o): i + 1 for i, o in enumerate(objs)}
    lst = the_list(w, objs, ev["list"])
    q = ev["qry"]

    def call(target):
        if q["callable"]:
            return target(CALLABLES[q["callable"]])
        return target(**kwargs_of(q["filters"]))

    ev["ret"] = []
    ev["mem"] = []
    try:
        if ev["kind"] == "select":
            res = call(lst)
            ev["ret"] = [num.get(id(t), 0) for t in res]
        elif ev["kind"] == "bulkset":
            res = call(lst)
            setattr(res, ev["attr"], py(ev["value"]))
        elif ev["kind"] == "order":
            ev["ret"] = [num.get(id(t), 0) for t in lst.order_by(ev["key"], reverse=ev["rev"])]
        elif ev["kind"] == "column":
            ev["col"] = [to_value(v) for v in getattr(lst, ev["attr"])]
            ev["ret"] = [num.get(id(t), 0) for t in lst]
            ev["len"] = len(lst)
        elif ev["kind"] == "index":
            ev["found"] = True
            try:
                ev["ret"] = [lst.index(objs[ev["probe"] - 1])]
            except (ValueError, RuntimeError):
                ev["found"] = False
        else:
            res = call(lst.remove_all)
            ev["ret"] = [num.get(id(t), 0) for t in res]
        ev["out"] = "ok"
    except RecursionError:
        ev["out"] = "RecursionError"
    except Exception as x:
        ev["out"] = type(x).__name__
    ev["after"] = project(w, objs)
    members = {id(t) for t in w.tasks}
    ev["mem"] = [id(o) in members for o in objs]
    return ev


def run(tier, seed, log):
    t0 = time.time()
    common.pjplan()
    rng = random.Random(seed * 77 + 5)
    n = 30000 if tier == "quick" else 300000
    events = [execute(gen_event(rng, i)) for i in range(n)]
    log("query: %d calls recorded (%.0fs)" % (len(events), time.time() - t0))
    jobs = 8
    per = max(200, min(8000, -(-len(events) // jobs)))
    j = tlc.judge_batches("QueryTrace", {}, [events[i:i + per] for i in range(0, len(events), per)], "qry", jobs=jobs)
    fails = []
    seen = set()
    proto = {}
    for t in j["fails_full"]:
        e = events[t[1]]
        if str(t[2]).startswith("PROTO."):
            proto[t[2]] = proto.get(t[2], 0) + 1
            continue
        if (t[1], t[2]) in seen:
            continue
        seen.add((t[1], t[2]))
        ops = "+".join(f["op"] for f in e["qry"]["filters"]) or e["qry"]["callable"]
        fails.append({"property": "C18", "engine": "query", "clause": t[2], "kind": e["kind"] + ":" + ops,
                      "case": {k: e[k] for k in ("id", "kind", "W", "list", "qry", "attr", "value")},
                      "tags": [], "text": "%s on %s with %s: %s" % (e["kind"], e["list"]["kind"], ops, str(t[3])[:100])})
    opsseen = {}
    for e in events:
        for f in e["qry"]["filters"]:
            opsseen[f["op"]] = opsseen.get(f["op"], 0) + 1
    nontriv = sum(1 for e in events if 0 < len(e["ret"]) or e["kind"] != "select")
    cov = {"events": len(events), "nontrivial": nontriv, "judge_states": j["states"], "ops": opsseen,
           "kinds": {k: sum(1 for e in events if e["kind"] == k)
                     for k in ("select", "bulkset", "removeall", "order", "column", "index")},
           "list_protocol_drift": proto,
           "samples": [{k: e[k] for k in ("kind", "W", "list", "qry", "ret", "out")} for e in events[10:12]]}
    return {"engine": "query", "tier": tier, "seed": seed, "wall_s": time.time() - t0, "fails": fails, "coverage": cov}


def replay(case, log):
    common.pjplan()
    ev = execute(dict(case["case"]))
    j = tlc.judge_batches("QueryTrace", {}, [[ev]], "qryrp", jobs=1)
    return sorted(set(t[2] for t in j["fails_full"]))


def evidence(prop, res):
    cov = res["coverage"]
    coverage = {
        "states": cov["judge_states"], "transitions": cov["judge_states"],
        "traces_validated_against_impl": cov["events"], "evaluations": cov["events"],
        "distinct_nontrivial": cov["nontrivial"],
        "list_protocol": {"calls": {k: cov["kinds"].get(k, 0) for k in ("order", "column", "index")},
                          "drift": cov.get("list_protocol_drift", {}),
                          "note": "order_by / attribute columns / index replayed against Query.tla; outside C18, "
                                  "differences are drift, not violations"},
        "rule": "seeded worlds (one WBS, 1-5 tasks, attributes present / absent / None) x every list of the API x "
                "single filters over all twelve suffixes and plain equality for int, string and missing attributes, "
                "pairs of filters, callables; select / bulk assignment / remove_all; non-trivial = non-empty "
                "selection or a mutating call; distinct draws of a seeded generator",
        "samples": cov["samples"], "exhaustive": False, "filter_ops": cov["ops"], "kinds": cov["kinds"],
        "checker_cmd": "tlc QueryTrace.tla (Matches / Select / AfterRemoveAll of Query.tla, own regex search)",
    }
    return {"level": "model_checking", "coverage": coverage,
            "assumptions": ["TLC and the world builder/projection are trusted",
                            "regular expressions are drawn from a small language (literals a b, '.', '^', '$')",
                            "comparison filters are only applied to values of one kind (mixed-type comparisons raise TypeError in Python and are outside the property)"]}
