"""Engine plumbing shared by all checks: result cache, evidence files, replay files, known findings.

An *engine* explores one part of pjplan (graph mutations, scheduling, calendars, ...) and serves
several properties with one run.  Its result is a JSON document

    { "engine": ..., "tier": ..., "seed": ..., "wall_s": ...,
      "props": { "C01": {"clauses": {...counts...}, "coverage": {...}} , ...},
      "fails": [ {"property": "C15", "clause": "C15.unchanged", "case": {...replayable...}, "text": "..."} ],
      "drift": {...} }

cached under .work/cache keyed by the hash of /repo/src, /verif/spec, /verif/harness, engine, tier,
seed, so that the checks of the same engine share one run and any edit to /repo invalidates it.
"""
import fcntl
import hashlib
import json
import os
import time

from . import common

# (the two directories can be redirected for runs against seeded defects, which must not overwrite the
# evidence of the unchanged tree)
EVIDENCE = os.environ.get("VERIF_EVIDENCE_DIR") or os.path.join(common.VERIF, "evidence")
REPLAYS = os.environ.get("VERIF_REPLAY_DIR") or os.path.join(common.VERIF, "replays")
KNOWN = os.path.join(common.VERIF, "known_findings.json")


def cache_key(engine, tier, seed):
    h = hashlib.sha256()
    h.update(common.tree_hash(common.SRC).encode())
    h.update(common.tree_hash(common.SPEC, os.path.join(common.VERIF, "harness")).encode())
    try:
        with open(KNOWN, "rb") as fh:
            h.update(fh.read())
    except OSError:
        pass
    h.update(("%s|%s|%s" % (engine, tier, seed)).encode())
    return h.hexdigest()[:24]


def cached_run(engine, tier, seed, fn, log):
    """Run fn() once per (repo state, verif state, engine, tier, seed)."""
    if os.environ.get("VERIF_NOCACHE"):
        return fn()
    cdir = os.path.join(common.WORK, "cache")
    os.makedirs(cdir, exist_ok=True)
    key = cache_key(engine, tier, seed)
    path = os.path.join(cdir, "%s-%s-%s.json" % (engine, tier, key))
    lock = open(os.path.join(cdir, "%s-%s.lock" % (engine, tier)), "w")
    fcntl.flock(lock, fcntl.LOCK_EX)
    try:
        if os.path.exists(path):
            try:
                with open(path) as fh:
                    r = json.load(fh)
                log("reusing the %s run of this tree (%s, %.0fs)" % (engine, tier, r.get("wall_s", 0)))
                r["cached"] = True
                return r
            except (OSError, ValueError):
                pass
        r = fn()
        # drop stale results of this engine/tier
        for f in os.listdir(cdir):
            if f.startswith("%s-%s-" % (engine, tier)) and f.endswith(".json"):
                try:
                    os.unlink(os.path.join(cdir, f))
                except OSError:
                    pass
        tmp = path + ".tmp%d" % os.getpid()
        with open(tmp, "w") as fh:
            json.dump(r, fh)
        os.replace(tmp, path)
        return r
    finally:
        fcntl.flock(lock, fcntl.LOCK_UN)
        lock.close()


def write_replay(prop, case):
    os.makedirs(REPLAYS, exist_ok=True)
    blob = json.dumps(case, sort_keys=True, default=str)
    dig = hashlib.sha256(blob.encode()).hexdigest()[:12]
    path = os.path.join(REPLAYS, "%s-%s.json" % (prop, dig))
    with open(path, "w") as fh:
        json.dump(case, fh, indent=1, sort_keys=True, default=str)
    return path


def load_known():
    try:
        with open(KNOWN) as fh:
            return json.load(fh)
    except OSError:
        return {"findings": [], "fixed": []}


def write_evidence(prop, tier, seed, level, coverage, assumptions, wall, violations):
    os.makedirs(EVIDENCE, exist_ok=True)
    doc = {"property_id": prop, "tier": tier, "seed": int(seed), "level": level, "coverage": coverage,
           "assumptions": assumptions, "wall_s": round(float(wall), 2), "violations": int(violations)}
    path = os.path.join(EVIDENCE, "%s.json" % prop)
    tmp = path + ".tmp%d" % os.getpid()
    with open(tmp, "w") as fh:
        json.dump(doc, fh, indent=1, default=str)
    os.replace(tmp, path)
    return path


class Timer:
    def __init__(self):
        self.t0 = time.time()

    def s(self):
        return time.time() - self.t0
