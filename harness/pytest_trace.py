"""pytest plugin (lives in /verif, never in the repository): records every public mutator call made by
the repository's own tests as an event (pre-state, call, outcome, post-state) over all Task / WBS
objects the test has created so far.  Nested internal calls are not logged (depth counter); the
event is written in `finally`, also on the error path.  Enabled by  -p harness.pytest_trace  and the
environment variable PJPLAN_TRACE_OUT (output file, JSON lines: one trace per test).
"""
import functools
import json
import os
import sys

import pjplan
from pjplan import task as _task
from pjplan import wbs as _wbs

EMPTY = _task.EMPTY_TASK_ID
STATE = {"tasks": [], "wbs": [], "depth": 0, "events": [], "on": False}


class _U:
    """the registry seen as a universe of harness.graph"""
    def __init__(self):
        self.tasks = list(STATE["tasks"])
        self.wbs = list(STATE["wbs"])
        self.n, self.w = len(self.tasks), len(self.wbs)
        self.handles = []
        self.phandles = []
        self.shandles = []
        self.ids = [0]

    def tidx(self):
        return {id(t): i + 1 for i, t in enumerate(self.tasks)}

    def widx(self):
        return {id(w): i + 1 for i, w in enumerate(self.wbs)}


def snapshot():
    from harness import graph
    STATE["depth"] += 1            # the getters used by the projection build list facades: never log those
    try:
        U = _U()
        g = graph.project(U, attrs=False, obs=False)
    finally:
        STATE["depth"] -= 1
    g.pop("hv", None)
    g["n"], g["w"] = U.n, U.w
    return g


def logged(name):
    def deco(fn):
        @functools.wraps(fn)
        def wrapper(*a, **kw):
            if not STATE["on"] or STATE["depth"] > 0:
                STATE["depth"] += 1
                try:
                    return fn(*a, **kw)
                finally:
                    STATE["depth"] -= 1
            pre = snapshot()
            out = "ok"
            STATE["depth"] += 1
            try:
                return fn(*a, **kw)
            except RecursionError:
                out = "RecursionError"
                raise
            except BaseException as e:
                out = type(e).__name__
                raise
            finally:
                STATE["depth"] -= 1
                STATE["events"].append({"call": name, "out": out, "pre": pre, "post": snapshot()})
        return wrapper
    return deco


def wrap_method(cls, attr, name=None):
    setattr(cls, attr, logged(name or "%s.%s" % (cls.__name__, attr))(cls.__dict__[attr]))


def wrap_setter(cls, attr):
    p = cls.__dict__[attr]
    setattr(cls, attr, property(p.fget, logged("%s.%s=" % (cls.__name__, attr))(p.fset), p.fdel, p.__doc__))


def install():
    T, W = _task.Task, _wbs.WBS
    orig_tinit, orig_winit = T.__init__, W.__init__

    @functools.wraps(orig_tinit)
    def tinit(self, id, *a, **kw):
        fn = logged("Task()")(orig_tinit) if id != EMPTY else orig_tinit
        if id == EMPTY:
            STATE["depth"] += 1
            try:
                return orig_tinit(self, id, *a, **kw)
            finally:
                STATE["depth"] -= 1
        # the new object joins the registry first: the constructor's own setter calls are part of the event
        STATE["tasks"].append(self)
        self.__dict__.setdefault("_Task__id", id)
        for k in ("parent", "children", "predecessors", "successors", "wbs"):
            self.__dict__.setdefault("_Task__" + k, None if k in ("parent", "wbs") else [])
        return fn(self, id, *a, **kw)

    @functools.wraps(orig_winit)
    def winit(self, *a, **kw):
        STATE["depth"] += 1
        try:
            orig_winit(self, *a, **kw)
        finally:
            STATE["depth"] -= 1
        STATE["wbs"].append(self)
        if STATE["on"] and STATE["depth"] == 0:
            s = snapshot()
            STATE["events"].append({"call": "WBS()", "out": "ok", "pre": s, "post": s})

    T.__init__ = tinit
    W.__init__ = winit
    for a in ("parent", "children", "predecessors", "successors"):
        wrap_setter(T, a)
    wrap_setter(W, "roots")
    for a in ("append", "remove", "insert", "move", "sort", "reorder"):
        wrap_method(_task._ChildrenList, a)
    for c in (_task._PredecessorsList, _task._SuccessorsList):
        for a in ("append", "remove"):
            wrap_method(c, a)
    wrap_method(_task._TaskList, "remove_all")
    for a in ("__lshift__", "__rshift__"):
        wrap_method(_task._ImmutableTaskList, a)
    orig_sa = _task._ImmutableTaskList.__dict__["__setattr__"]
    logged_sa = logged("_ImmutableTaskList.<bulk set>")(orig_sa)

    def bulk_setattr(self, key, value):
        if key.startswith("_"):
            return orig_sa(self, key, value)
        return logged_sa(self, key, value)

    _task._ImmutableTaskList.__setattr__ = bulk_setattr
    for a in ("__floordiv__", "__lshift__", "__rshift__", "clone"):
        wrap_method(T, a)
    for a in ("__floordiv__", "remove", "remove_all", "clone", "subtree"):
        wrap_method(W, a)


install()
_OUT = os.environ.get("PJPLAN_TRACE_OUT")


def pytest_runtest_setup(item):
    STATE.update(tasks=[], wbs=[], depth=0, events=[], on=True)


def pytest_runtest_teardown(item, nextitem):
    STATE["on"] = False
    if _OUT:
        ids = []
        for t in STATE["tasks"]:
            try:
                ids.append(t.id)
            except Exception:
                ids.append(None)
        with open(_OUT, "a") as fh:
            fh.write(json.dumps({"test": item.nodeid, "ids": [repr(i) for i in ids], "n": len(STATE["tasks"]),
                                 "w": len(STATE["wbs"]), "events": STATE["events"]}) + "\n")
    STATE.update(tasks=[], wbs=[], events=[])
