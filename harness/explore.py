"""Code -> spec, exhaustive part: breadth-first exploration of the REAL objects' reachable states.

Every reachable projected state of a small universe is visited once; the whole action alphabet is
applied to a deep copy of the real objects in that state; each call is recorded as an event
(pre, act, out, ret, post, obs).  Each worker process hands its events to its own TLC run
(spec/TaskGraphTrace.tla), level by level.  States reached by an event that failed a clause are
not expanded (their pre-state would not be well-formed).
"""
import multiprocessing as mp
import pickle
import random
import shutil
import time

from . import graph, tlc


SLICE = 15000
CORE_BREAKING = {"C01.forest", "C01.dag"}   # cycles / multiply listed tasks: the core state is not a forest


def nontrivial(ev):
    """An event is non-trivial when the call changed the state or was refused."""
    return ev["out"] != "ok" or not ev["same"]


def _work(args):
    """Worker: apply the alphabet to each universe of the chunk, judge the events with TLC."""
    blobs, alphabet, start_id, wd, mod, idx, want_events, prune = args
    events = []
    new_states = {}
    eid = start_id
    for blob, prebroken in blobs:
        U = pickle.loads(blob)
        pre = graph.project(U, obs=False)
        pre_key = graph.state_key(pre)
        for a in alphabet:
            if prune and graph.pruned(pre, a, len(U.tasks)):
                continue
            V = pickle.loads(blob)
            out, ret = graph.apply(V, a)
            post = graph.project(V)
            obs = post.pop("obs")
            key = graph.state_key(post)
            ev = {"id": eid, "pre": pre, "act": a, "out": out, "ret": -1 if ret is None else ret,
                  "same": key == pre_key, "pk": pre_key, "prebroken": prebroken}
            if key != pre_key:
                ev["post"] = post
                ev["obs"] = obs
            eid += 1
            events.append(ev)
            if key != pre_key:
                if key not in new_states:
                    new_states[key] = [pickle.dumps(V), [ev["id"]], pre_key, a]
                else:
                    new_states[key][1].append(ev["id"])
    j = {"fails": [], "states": 0}
    for b in range(0, len(events), SLICE):        # bounded JSON document per TLC run (heap)
        r = tlc.judge_one(wd, mod, events[b:b + SLICE], "%s_%d" % (idx, b), heap="1g")
        j["fails"].extend(r["fails"])
        j["states"] += r["states"]
    byid = {e["id"]: e for e in events}
    fails = [(byid[i], c) for i, c in j["fails"] if not c.startswith("DRIFT")]
    drifts = [(byid[i], c) for i, c in j["fails"] if c.startswith("DRIFT")]
    # a state is expanded later unless EVERY call that produced it left the graph itself ill-formed
    # ... nor the states left behind by a rejected multi-argument constructor (known finding KF-C15-ctor-partial)
    broken = {e["id"] for e, c in fails if c in CORE_BREAKING}
    # the states left behind by a rejected multi-argument constructor (known finding KF-C15-ctor-partial) are
    # not explored at all
    kf = {e["id"] for e, c in fails if e["act"]["name"] == "New" and c == "C15.unchanged"}
    for key in [k for k, rec in new_states.items() if all(i in kf for i in rec[1])]:
        del new_states[key]
    # (such states ARE expanded, flagged `prebroken`: only the state clauses are judged from there on, so that
    # a violation of another property further down the history is still found)
    for key, rec in new_states.items():
        rec[1] = [i for i in rec[1] if i not in kf]
        good = [i for i in rec[1] if i not in broken and not byid[i]["prebroken"]]
        rec.append(not good)
        rec[1] = good[0] if good else rec[1][0]
    samples = [e for e in events if nontrivial(e)][:2]
    return {"n": len(events), "nontrivial": sum(1 for e in events if nontrivial(e)), "fails": fails,
            "ndrift": len(drifts), "drifts": drifts[:3], "new": new_states, "samples": samples,
            "jstates": j["states"], "events": events if want_events else None}


def consts(ids, W, prio):
    return {"N": len(ids), "W": W, "IdOf": list(ids), "Prio": list(prio)}


class Result:
    def __init__(self):
        self.events = 0
        self.states = 0
        self.levels = 0
        self.fails = []            # (event, clause)
        self.drifts = []
        self.ndrift = 0
        self.samples = []
        self.nontrivial = 0
        self.judge_states = 0
        self.complete = False
        self.wall = 0.0
        self.alphabet = 0


def sample_of(e):
    return {"pre": {k: e["pre"][k] for k in ("ch", "pre", "own")},
            "act": {k: v for k, v in e["act"].items() if v not in (0, [], "")},
            "out": e["out"], "post": "same" if e["same"] else {k: e["post"][k] for k in ("ch", "pre", "own")}}


def run(ids, W, L=2, level=2, max_levels=99, max_states=10 ** 9, jobs=16, log=None,
        stop_on_fail=False, max_fails=3000, keep_events=None, alphabet=None, start=None, frontier_cap=None, rng=None,
        prune=False, light=False):
    """Exhaustive (or frontier-sampled) exploration + judging.  Returns Result."""
    t0 = time.time()
    U0 = start or graph.Universe(ids, W)
    alphabet = alphabet or graph.alphabet(len(ids), W, L=L, ids=ids, level=level, light=light)
    C = consts(ids, W, U0.prio)
    g0 = graph.project(U0, obs=False)
    seen = {graph.state_key(g0)}
    frontier = [(pickle.dumps(U0), False)]
    res = Result()
    res.parent = {graph.state_key(g0): None}
    res.alphabet = len(alphabet)
    eid = 0
    wd, mod = tlc.prepare_judge("TaskGraphTrace", C, "tg")
    jv = max(1, jobs // 2)          # a judging JVM keeps ~2 cores busy (TLC + JIT)
    pool = mp.Pool(jv)
    truncated = False
    try:
        lvl = 0
        idx = 0
        extra_levels, families_before, famcount = 0, set(), {}
        while frontier and lvl < max_levels:
            lvl += 1
            # chunks of >= ~3000 events, at most 4*jobs chunks
            per = max(1, -(-3000 // len(alphabet)), -(-len(frontier) // jv))
            chunks = []
            for i in range(0, len(frontier), per):
                blobs = frontier[i:i + per]
                idx += 1
                chunks.append((blobs, alphabet, eid, wd, mod, idx, keep_events is not None, prune))
                eid += len(blobs) * len(alphabet)
            cand = {}
            bad_events = set()
            nev = 0
            for r in pool.imap_unordered(_work, chunks):
                nev += r["n"]
                res.nontrivial += r["nontrivial"]
                res.judge_states += r["jstates"]
                res.ndrift += r["ndrift"]
                if len(res.drifts) < 20:
                    res.drifts.extend(r["drifts"])
                for e, c in r["fails"]:
                    fam = c.split(".")[0]
                    if extra_levels and (fam in families_before or famcount.get(fam, 0) >= 200):
                        continue            # beyond the budget only violations of properties not seen so far count
                    famcount[fam] = famcount.get(fam, 0) + 1
                    res.fails.append((e, c))
                    bad_events.add(e["id"])
                if len(res.samples) < 8:
                    res.samples.extend(sample_of(e) for e in r["samples"][:1])
                if keep_events is not None:
                    keep_events.extend(r["events"])
                for k, v in r["new"].items():
                    if k in seen:
                        continue
                    # prefer a well-formed way of reaching the state; among equals the earliest event
                    if k not in cand or (cand[k][4] and not v[4]) or (cand[k][4] == v[4] and v[1] < cand[k][1]):
                        cand[k] = v
            res.events += nev
            if log:
                log("level %d: %d states expanded, %d events, %d new states, %d fails, %d drifts, %.1fs"
                    % (lvl, len(frontier), nev, len(cand), len(res.fails), res.ndrift, time.time() - t0))
            res.levels = lvl
            if res.fails and stop_on_fail:
                break
            if len(res.fails) > max_fails:
                # the budget of reported failures is spent.  A defect often violates one property at once and
                # another one only some calls later (a duplicate entry now, a wrong owner after a removal): three
                # more levels are explored on a sample of the frontier, recording only properties not seen so far
                truncated = True
                if not extra_levels:
                    families_before = {c.split(".")[0] for _, c in res.fails}
                extra_levels += 1
                if extra_levels > 3 or {"C01", "C05", "C11", "C15", "C16"} <= {c.split(".")[0] for _, c in res.fails}:
                    break
            frontier = []
            for k in sorted(cand, key=lambda k: (cand[k][4], cand[k][1])):
                blob, via, pk, a, prebroken = cand[k]
                if len(seen) >= max_states:
                    truncated = True
                    break
                seen.add(k)
                res.parent[k] = (pk, a)
                frontier.append((blob, prebroken))
            if frontier_cap and len(frontier) > frontier_cap:
                truncated = True
                frontier = rng.sample(frontier, frontier_cap)
            if extra_levels and len(frontier) > 120:
                frontier = (rng or random.Random(7)).sample(frontier, 120)
        res.complete = (not frontier) and not truncated
    finally:
        pool.close()
        pool.terminate()
        shutil.rmtree(wd, ignore_errors=True)
    res.states = len(seen)
    res.state_keys = seen
    res.wall = time.time() - t0
    return res


def history_to(res, key):
    """Actions leading from the initial state to the state with this key."""
    h = []
    while res.parent.get(key) is not None:
        key, a = res.parent[key]
        h.append(a)
    return list(reversed(h))
