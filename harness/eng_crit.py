"""Engine `crit` (C12): WBS.critical_path() against spec/CritPath.tla.

1. TLC model-checks the definition itself (MC_CritPath: zero-float definition == chain enumeration
   on every bounded input).
2. Inputs (every forest shape x link placements on leaves and summaries x durations with ties,
   zeros, spent > estimate; integer, dyadic and decimal amounts) are built with the public API,
   critical_path() is called, TLC compares the returned set with Critical(I).
"""
import itertools
import random
import time
from fractions import Fraction

from . import common, tlc
from . import eng_sched as es

PROPS = ["C12"]
NOQ = [0, 0]


def amount(rng, scale):
    """(rational for the model, python number for the code)"""
    k = rng.choice([0, 1, 1, 2, 2, 3, 3, 4, 5, 7])
    if scale == "int":
        return [k, 1], k
    if scale == "dyadic":
        fr = Fraction(k, 4)
        return [fr.numerator, fr.denominator], k / 4
    if scale == "halfmin":                    # half minutes: sums tie exactly, whole-minute arithmetic would not
        fr = Fraction(k, 120)
        return [fr.numerator, fr.denominator], k / 120
    fr = Fraction(k, 10)                      # decimal: 0.1 .. 0.7 are not exact in binary
    return [fr.numerator, fr.denominator], k / 10


def gen_case(rng, n, cid, shape=None, scale="int", links=None):
    tasks, roots = es.gen_structure(rng, n, shape)
    ids = rng.sample(range(0, 3 * n + 2), n)
    if rng.random() < 0.3:
        ids = [i + 1000 if i > 0 else i for i in ids]        # large numbers: equal ids are not the same int object
    nl = links if links is not None else rng.choice([0, 1, 2, 2, 3, 4, 5])
    for _ in range(nl):
        s, p = rng.randint(1, n), rng.randint(1, n)
        if es.legal_link(tasks, s, p) and p not in tasks[s - 1]["pre"]:
            tasks[s - 1]["pre"].append(p)
    vals = {}
    for i, t in enumerate(tasks, start=1):
        t["id"] = ids[i - 1]
        t["est"], t["spent"] = NOQ, NOQ
        t["ms"] = rng.random() < 0.15          # the milestone flag does not change how long a leaf lasts
        r = rng.random()
        if r < 0.85:
            t["est"], e = amount(rng, scale)
            vals[(i, "est")] = e
        if rng.random() < 0.3:
            t["spent"], s = amount(rng, scale)
            vals[(i, "spent")] = s
    I = {"tasks": tasks, "roots": roots, "ext": []}
    return {"id": cid, "I": I, "vals": {"%d.%s" % k: v for k, v in vals.items()}, "scale": scale}


def has_cycle(I):
    """hierarchy-closed cycle at leaf level (outside C12's domain: 'acyclic WBSs')"""
    tasks = I["tasks"]
    n = len(tasks)
    leaves = [i for i in range(1, n + 1) if not tasks[i - 1]["kids"]]

    def lv(t):
        return [t] if not tasks[t - 1]["kids"] else [x for c in tasks[t - 1]["kids"] for x in lv(c)]

    pre = {}
    for l in leaves:
        P = set()
        for a in [l] + list(es.anc_of(tasks, l)):
            for p in tasks[a - 1]["pre"]:
                P |= set(lv(p))
        pre[l] = P
    state = {}

    def dfs(x):
        if state.get(x) == 1:
            return True
        if state.get(x) == 2:
            return False
        state[x] = 1
        for y in pre[x]:
            if dfs(y):
                return True
        state[x] = 2
        return False

    return any(dfs(l) for l in leaves)


def execute(case):
    pj = common.pjplan()
    I = case["I"]
    n = len(I["tasks"])
    objs = {}
    # history: query, then change (1) only dependencies, (2) only estimates, (3) both, and query again
    mode = case["id"] % 4
    two_step = mode != 0
    for i, t in enumerate(I["tasks"], start=1):
        e = case["vals"].get("%d.est" % i)
        if mode in (2, 3) and i % 2:
            e = (e or 0) + 1
        kw = {}
        if case["id"] % 4 == 1:
            # a WBS that carries dates (typed in, or the result of a scheduler): the critical path is about
            # estimates and dependencies, dates say nothing
            st = common.FakeDT(2030, 1, 7) + __import__("datetime").timedelta(days=(i * 3 + case["id"]) % 9)
            kw = {"start": st, "end": st + __import__("datetime").timedelta(days=(i + case["id"]) % 4)}
        objs[i] = pj.Task(t["id"], name="T%d" % i, estimate=e, spent=case["vals"].get("%d.spent" % i),
                          milestone=bool(t.get("ms")), **kw)
    w = pj.WBS()

    # a summary that is re-parented AFTER the first query (ancestor chains must not be remembered)
    late = None
    if two_step and case["id"] % 3 == 0:
        cands = [i for i, t in enumerate(I["tasks"], start=1) if t["kids"] and t["par"]]
        late = cands[case["id"] % len(cands)] if cands else None

    def attach2(lst, numbers):
        for c in numbers:
            if c == late:
                continue
            lst.append(objs[c])
            attach2(objs[c].children, I["tasks"][c - 1]["kids"])

    attach2(w.roots, I["roots"])
    if late is not None:
        w.roots.append(objs[late])
        attach2(objs[late].children, I["tasks"][late - 1]["kids"])
    # successors OUTSIDE the WBS (another project, or a task removed from this one) do not belong to the network
    if case["id"] % 5 == 0:
        leaves = [i for i, t in enumerate(I["tasks"], start=1) if not t["kids"]]
        other = pj.WBS()
        x = other // pj.Task(9999, estimate=50)
        x.predecessors = [objs[leaves[case["id"] % len(leaves)]]]
        gone = w // pj.Task(9998, estimate=70)
        gone.predecessors = [objs[leaves[0]]]
        w.remove(gone)

    # predecessors OUTSIDE the WBS (free-standing, or a member of another project whose id equals the id of a
    # member of this one): they are no tasks of this WBS, so neither part of its network nor of the answer
    xleaf, outside = 0, []
    if case["id"] % 7 in (2, 3):
        leaves = [i for i, t in enumerate(I["tasks"], start=1) if not t["kids"]]
        xleaf = leaves[(case["id"] // 7) % len(leaves)]
        if case["id"] % 7 == 2:
            outside = [pj.Task(9997, estimate=60)]
        else:
            elsewhere = pj.WBS()
            twin = I["tasks"][leaves[(case["id"] // 7 + 1) % len(leaves)] - 1]["id"]
            outside = [elsewhere // pj.Task(twin, estimate=60)]

    def link():
        for i, t in enumerate(I["tasks"], start=1):
            if t["pre"] or i == xleaf:
                objs[i].predecessors = [objs[p] for p in t["pre"]] + (outside if i == xleaf else [])

    if mode == 2:
        link()
    if two_step:
        es.guarded(lambda: [t for t in w.critical_path()], 5.0)
        for i, t in enumerate(I["tasks"], start=1):
            objs[i].estimate = case["vals"].get("%d.est" % i)
        if late is not None:
            sibs = I["tasks"][I["tasks"][late - 1]["par"] - 1]["kids"]
            objs[late].parent = objs[I["tasks"][late - 1]["par"]]
            objs[I["tasks"][late - 1]["par"]].children = [objs[c] for c in sibs]       # documented sibling order
    if mode != 2:
        link()
    case["before"] = es.project_wbs(w)
    num = {id(o): i for i, o in objs.items()}
    out, res = es.guarded(lambda: [t for t in w.critical_path()], 5.0)
    case["out"] = out
    case["crit"] = [num.get(id(t), 0) for t in res] if out == "ok" else []
    case["after"] = es.project_wbs(w)
    return case


def run(tier, seed, log):
    t0 = time.time()
    common.pjplan()
    n_mc, links_mc = (3, 2) if tier == "quick" else (4, 2)
    mc = tlc.run_model("MC_CritPath", {"N": n_mc, "MAXLINKS": links_mc}, {"DURS": {0, 1, 2}}, "mccp",
                       invariants=["DefsAgree", "NonEmpty", "OnlyLeaves"], workers=16)
    if not mc["ok"]:
        raise tlc.TlcError("MC_CritPath failed: %s\n%s" % (tlc.violated(mc["out"]), mc["out"][-2000:]))
    log("MC_CritPath N=%d: %d inputs, both definitions agree (%.0fs)" % (n_mc, mc["stats"]["distinct"], mc["wall"]))
    rng = random.Random(seed * 31 + 3)
    cases = []
    cid = 0
    maxn = 4 if tier == "quick" else 5
    for n in range(1, maxn + 1):
        shapes = es.small_shapes(n)
        for shape in shapes:
            for scale in ("int", "dyadic", "decimal", "halfmin"):
                for _ in range(4 if n < 5 else 2):
                    c = gen_case(rng, n, cid, shape, scale)
                    if not has_cycle(c["I"]):
                        cases.append(c)
                        cid += 1
    for _ in range(1500 if tier == "quick" else 20000):
        c = gen_case(rng, rng.choice([3, 4, 5, 6, 7, 8]), cid, None, rng.choice(["int", "dyadic", "decimal", "halfmin"]))
        if not has_cycle(c["I"]):
            cases.append(c)
            cid += 1
    for c in cases:
        execute(c)
    log("crit: %d critical_path() calls recorded (%.0fs)" % (len(cases), time.time() - t0))
    jobs = 8
    per = max(100, -(-len(cases) // jobs))
    j = tlc.judge_batches("CritTrace", {}, [cases[i:i + per] for i in range(0, len(cases), per)], "crit", jobs=jobs)
    byid = {c["id"]: c for c in cases}
    fails = []
    for t in j["fails_full"]:
        c = byid[t[1]]
        fails.append({"property": "C12", "engine": "crit", "clause": t[2], "detail": str(t[3])[:200],
                      "kind": c["scale"], "case": {"id": c["id"], "I": c["I"], "vals": c["vals"], "scale": c["scale"]},
                      "tags": tags_of(c), "text": "%d tasks, %s amounts: %s" % (len(c["I"]["tasks"]), c["scale"], str(t[3])[:120])})
    nontriv = sum(1 for c in cases if any(t["pre"] for t in c["I"]["tasks"]))
    cov = {"cases": len(cases), "nontrivial": nontriv, "judge_states": j["states"],
           "mc_states": mc["stats"]["distinct"], "mc_transitions": mc["stats"]["generated"],
           "summary_links": sum(1 for c in cases if any(c["I"]["tasks"][p - 1]["kids"] or t["kids"]
                                                        for t in c["I"]["tasks"] for p in t["pre"])),
           "samples": [{"I": c["I"], "crit": c["crit"], "out": c["out"]} for c in cases[300:302]]}
    return {"engine": "crit", "tier": tier, "seed": seed, "wall_s": time.time() - t0, "fails": fails,
            "coverage": cov}


def tags_of(c):
    return []


def replay(case, log):
    c = dict(case["case"])
    common.pjplan()
    execute(c)
    j = tlc.judge_batches("CritTrace", {}, [[c]], "critrp", jobs=1)
    return sorted(set(t[2] for t in j["fails_full"]))


def evidence(prop, res):
    cov = res["coverage"]
    coverage = {
        "states": cov["mc_states"] + cov["judge_states"], "transitions": cov["mc_transitions"] + cov["judge_states"],
        "traces_validated_against_impl": cov["cases"], "evaluations": cov["cases"],
        "distinct_nontrivial": cov["nontrivial"],
        "rule": "every forest shape of <= 4 (quick) / 5 (thorough) tasks x seeded link placements on leaves and "
                "summaries x durations with ties, zeros and spent > estimate on integer, dyadic, decimal and half-minute scales, milestone flags, "
                "plus seeded random WBSs of 3-8 tasks; non-trivial = at least one dependency link; distinct draws",
        "samples": cov["samples"], "exhaustive": False,
        "links_touching_summaries": cov["summary_links"],
        "definition_check": "MC_CritPath: zero-float definition == chain enumeration on %d bounded inputs" % cov["mc_states"],
        "checker_cmd": "tlc MC_CritPath.tla; tlc CritTrace.tla",
    }
    return {"level": "model_checking", "coverage": coverage,
            "assumptions": ["TLC and the input builder are trusted", "acyclic WBSs only (C12's domain)",
                            "decimal amounts are judged with exact rationals in the model (rounding insensitivity)"]}
