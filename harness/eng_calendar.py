"""Engine `calendar` (C17): calendar algebra, constructor validation, availability search.

Calendar expressions are enumerated as trees (all leaves x operators x leaves, plus seeded deeper
trees); each is built with the real classes, probed on every day of a window (two times of day and
both validity boundaries) and searched in both directions with small horizons.  TLC evaluates the
same expression with spec/Calendar.tla (exact rational arithmetic) and judges every observation
(spec/CalendarTrace.tla).
"""
import datetime as _dt
import itertools
import random
import time
from fractions import Fraction

from . import common, tlc

PROPS = ["C17"]
EPOCH = (2024, 1, 1)          # a Monday
DAY = 1440


def inst(m, micro=0):
    pj = common.pjplan()
    return common.FakeDT(*EPOCH) + _dt.timedelta(minutes=m, microseconds=micro)


def minutes(dt, micro=0):
    d = dt - common.FakeDT(*EPOCH)
    us = d.days * 86400 * 10 ** 6 + d.seconds * 10 ** 6 + d.microseconds - micro
    if us % (60 * 10 ** 6):
        return None
    return us // (60 * 10 ** 6)


def q(n, d=1):
    return [n, d]


def num(qv):
    return qv[0] if qv[1] == 1 else qv[0] / qv[1]


def to_q(x):
    if x is None:
        return [0, 0]
    if isinstance(x, bool):
        return [-777777, 1]
    if isinstance(x, int):
        return [x, 1] if abs(x) < 10 ** 6 else [-777777, 1]
    if isinstance(x, float):
        if x != x or abs(x) > 10 ** 5:
            return [-777777, 1]
        fr = Fraction(x).limit_denominator(4096)
        if abs(float(fr) - x) > 1e-9:
            return [-777777, 7]          # not a small rational: compares unequal to every model value
        return [fr.numerator, fr.denominator]
    return [-777777, 1]


# -- leaves -------------------------------------------------------------------------------------
def weekly_list(days, u, s=None, e=None):
    return {"k": "weekly", "form": "list", "days": list(days), "u": u, "us": [], "hs": s is not None,
            "s": s or 0, "he": e is not None, "e": e or 0}


def weekly_dict(m, s=None, e=None):
    return {"k": "weekly", "form": "dict", "days": list(m.keys()), "u": q(0), "us": list(m.values()),
            "hs": s is not None, "s": s or 0, "he": e is not None, "e": e or 0}


def direct(m):
    return {"k": "direct", "days": list(m.keys()), "us": list(m.values())}


def direct_steps(first, *later):
    """a dated calendar configured in steps: the constructor, then set_units() per later group (a later
    entry for the same day replaces the earlier one - Eval takes the last entry of a day)"""
    groups = [first] + list(later)
    e = {"k": "direct", "days": [d for g in groups for d in g.keys()], "us": [u for g in groups for u in g.values()],
         "cut": []}
    n = 0
    for g in groups[:-1]:
        n += len(g)
        e["cut"].append(n)
    return e


def direct_rejected(first, bad, *later):
    """a dated calendar that was offered a definition with a negative value in a later set_units() call: the call
    is refused with RuntimeError and the calendar keeps what it had (the refused group leaves no trace)"""
    e = direct_steps(first, *later)
    e["bad"] = [[d, u] for d, u in bad.items()]
    e["badat"] = len(first)
    return e


def func(name, c):
    """calendar.apply(f) with one of the named functions of FUNCS (they accept None)"""
    return {"k": "func", "fn": name, "c": c}


FUNCS = {"half": lambda x: None if x is None else x / 2,
         "orzero": lambda x: x or 0,
         "plus1": lambda x: None if x is None else x + 1}


def fixed(u, s=None, e=None):
    return {"k": "fixed", "u": u, "hs": s is not None, "s": s or 0, "he": e is not None, "e": e or 0}


def number(u):
    return {"k": "num", "u": u}


def op(o, l, r):
    return {"k": "op", "op": o, "l": l, "r": r}


S1 = 3 * DAY + 540          # Thursday 09:00
E1 = 10 * DAY + 540         # Thursday of the following week, 09:00

VALID_LEAVES = [
    weekly_list([0, 1, 2, 3, 4], q(8)),
    weekly_list([0, 2, 4], q(1, 2), S1, E1),
    weekly_list([5, 6], q(2), S1, None),
    weekly_list([1, 3], q(3), None, E1),
    weekly_list([], q(5)),
    weekly_list([0, 1, 2, 3, 4, 5, 6], q(0)),
    weekly_dict({0: q(8), 1: q(4), 6: q(2)}),
    weekly_dict({2: q(1, 2), 3: q(0)}, S1, E1),
    direct({1: q(8), 2: q(0), 4: q(3), 9: q(1, 4)}),
    direct({3: q(1, 2)}),
    direct({}),
    fixed(q(1)),
    fixed(q(2), S1, E1),
    fixed(q(0)),
    fixed(q(3, 2), 5 * DAY, None),
    fixed(q(4), S1, S1),
    direct_steps({1: q(8), 2: q(0)}, {4: q(3), 2: q(5)}),
    direct_steps({}, {3: q(1, 2), 8: q(2)}, {3: q(0)}),
    func("half", weekly_list([0, 2, 4], q(1, 2), S1, E1)),
    func("orzero", direct({1: q(8), 2: q(0), 4: q(3)})),
    func("plus1", fixed(q(2), S1, E1)),
    # valid entries listed BEFORE the negative one must not get through either
    direct_rejected({1: q(8), 4: q(6)}, {1: q(0), 2: q(5), 3: q(-1)}),
    direct_rejected({}, {2: q(5), 3: q(-1, 2)}, {2: q(1)}),
]
INVALID_LEAVES = [
    direct_steps({1: q(8)}, {2: q(-1)}),
    func("half", fixed(q(-1))),
    weekly_list([0, 7], q(8)),
    weekly_list([-1], q(8)),
    weekly_list([0, 1], q(-1)),
    weekly_list([0, 1], q(8), E1, S1),
    weekly_dict({7: q(8)}),
    weekly_dict({0: q(8), -1: q(1)}),
    weekly_dict({0: q(-2)}),
    weekly_dict({0: q(2)}, E1, S1),
    direct({1: q(-1)}),
    direct({1: q(8), 2: q(-1, 2)}),
    fixed(q(-1)),
    fixed(q(1), E1, S1),
    fixed(q(1), S1 + 1, S1),
]
NUMBERS = [number(q(0)), number(q(1, 2)), number(q(1)), number(q(2)), number(q(8)), number(q(-1))]
OPS = ["+", "-", "*", "/", "|"]


def build(e):
    pj = common.pjplan()
    k = e["k"]
    if k == "weekly":
        kw = {}
        if e["hs"]:
            kw["start"] = inst(e["s"])
        if e["he"]:
            kw["end"] = inst(e["e"])
        # the arguments belong to the caller: they are edited after the call (a calendar that kept the caller's
        # list or table instead of a copy then answers something else); dict definitions are padded to a complete
        # week table with zeros for every other expression (the same calendar by definition)
        if e["form"] == "list":
            dl = list(e["days"])
            cal = pj.WeeklyCalendar(days=dl, units_per_day=num(e["u"]), **kw)
            dl.clear()
            dl.extend([0, 1, 2, 3, 4, 5, 6])
            return cal
        table = {d: num(u) for d, u in zip(e["days"], e["us"])}
        if table and all(isinstance(d, int) and 0 <= d <= 6 for d in table) and (sum(table) + len(table)) % 2 == 0:
            for d in range(7):
                table.setdefault(d, 0)
        cal = pj.WeeklyCalendar(units_per_day=table, **kw)
        for d in list(table):
            table[d] = 97
        table.clear()
        return cal
    if k == "direct":
        # keys carry a time of day: the class must normalise them to the day
        # (every other definition has whole days as keys: nothing to normalise); the table handed in is edited
        # after the call, as above
        whole = sum(e["days"]) % 2 == 0
        items = [(inst(d * DAY + (540 if i % 2 and not whole else 0), 250000 if i % 3 == 0 and not whole else 0), num(u))
                 for i, (d, u) in enumerate(zip(e["days"], e["us"]))]
        cuts = [0] + list(e.get("cut") or []) + [len(items)]
        if len(cuts) == 2 and not e.get("bad"):
            table = dict(items)
            cal = pj.DirectCalendar(table)
            for d in list(table):
                table[d] = 97
            table[inst(3 * DAY)] = 96
            return cal
        cal = pj.DirectCalendar(dict(items[:cuts[1]])) if cuts[1] else pj.DirectCalendar()
        for a, b in zip(cuts[1:], cuts[2:]):
            if e.get("bad") and a == e["badat"]:
                refuse(cal, e["bad"])
            cal.set_units(dict(items[a:b]))
        if e.get("bad") and e["badat"] >= len(items):
            refuse(cal, e["bad"])
        return cal
    if k == "func":
        return build(e["c"]).apply(FUNCS[e["fn"]])
    if k == "fixed":
        return pj.FixedCalendar(num(e["u"]), inst(e["s"]) if e["hs"] else None, inst(e["e"]) if e["he"] else None)
    if k == "num":
        return num(e["u"])
    l = build(e["l"])
    r = build(e["r"])
    o = e["op"]
    if o == "+":
        return l + r
    if o == "-":
        return l - r
    if o == "*":
        return l * r
    if o == "/":
        return l / r
    return l | r


class NotRefused(Exception):
    pass


def refuse(cal, bad):
    """offer the invalid group; it must be refused with RuntimeError (anything else is reported as the outcome of
    building the expression)"""
    try:
        cal.set_units({inst(d * DAY + 540): num(u) for d, u in bad})
    except RuntimeError:
        return
    raise NotRefused()


def bounds(e, acc):
    if e["k"] in ("weekly", "fixed"):
        for has, v in ((e["hs"], e["s"]), (e["he"], e["e"])):
            if has:
                acc.update((v - 1, v, v + 1))
    elif e["k"] == "op":
        bounds(e["l"], acc)
        bounds(e["r"], acc)
    elif e["k"] == "func":
        bounds(e["c"], acc)
    return acc


def end_bounds(e, acc):
    if e["k"] in ("weekly", "fixed") and e["he"]:
        acc.add(e["e"])
    elif e["k"] == "op":
        end_bounds(e["l"], acc)
        end_bounds(e["r"], acc)
    elif e["k"] == "func":
        end_bounds(e["c"], acc)
    return acc


def observe(eid, e, rng, window=21, light=False):
    pj = common.pjplan()
    ev = {"id": eid, "expr": e, "built": "ok", "probes": [], "searches": []}
    try:
        cal = build(e)
    except RuntimeError:
        ev["built"] = "RuntimeError"
        return ev
    except RecursionError:
        ev["built"] = "RecursionError"
        return ev
    except Exception as x:
        ev["built"] = type(x).__name__
        return ev
    res = pj.Resource("r", cal)
    ts = set()
    days = range(0, window) if not light else sorted(rng.sample(range(0, window), 8))
    for d in days:
        ts.add(d * DAY)
        ts.add(d * DAY + 540)
    ts |= {t for t in bounds(e, set()) if t >= 0}
    # instants with a sub-second part (as datetime.now() gives) fall into the same model minute, except
    # exactly on an END bound (date > end is decided below the minute)
    ends = end_bounds(e, set())
    probes = [(t, 0) for t in sorted(ts)] + [(t, 500000) for t in sorted(ts)[::3] if t not in ends]
    for t, micro in probes:
        p = {"t": t, "v": [0, 0], "r": [0, 1], "exc": ""}
        try:
            p["v"] = to_q(cal.get_available_units(inst(t, micro)))
            p["r"] = to_q(res.get_available_units(inst(t, micro)))
        except ZeroDivisionError:
            p["exc"] = "ZeroDivisionError"
        except Exception as x:
            p["exc"] = type(x).__name__
        ev["probes"].append(p)
    # the calendar then serves as an operand of further expressions (a calendar object is a value: combining it
    # must not change what it answers itself) and is asked again
    try:
        extra = pj.FixedCalendar(3)
        for derived in (cal + extra, cal + 2, cal - extra, cal * 2, cal / 2, cal | extra, (cal + extra) + extra,
                        cal.apply(FUNCS["orzero"])):
            try:
                derived.get_available_units(inst(DAY))
            except Exception:
                pass
    except Exception:
        pass
    # what the accessors hand out (the week table, the list of dates) belongs to the caller: editing it must not
    # edit the calendar
    try:
        if hasattr(cal, "get_week_day_hours"):
            h = cal.get_week_day_hours()
            for k in list(h):
                h[k] = 99
            h.clear()
        if hasattr(cal, "dates"):
            ds = cal.dates
            if isinstance(ds, list):
                ds.clear()
                ds.append(inst(DAY))
    except Exception:
        pass
    for t, micro in probes[::5][:8]:
        p = {"t": t, "v": [0, 0], "r": [0, 1], "exc": ""}
        try:
            p["v"] = to_q(cal.get_available_units(inst(t, micro)))
            p["r"] = to_q(res.get_available_units(inst(t, micro)))
        except ZeroDivisionError:
            p["exc"] = "ZeroDivisionError"
        except Exception as x:
            p["exc"] = type(x).__name__
        ev["probes"].append(p)
    starts = [2 * DAY, 5 * DAY + 540, 12 * DAY + 540, S1, E1 + DAY]
    micro = 0 if ends else 333333
    for frm in (starts if not light else rng.sample(starts, 2)):
        for direction in (1, -1):
            # horizons also shrink again: an answer found with a long horizon says nothing about a short one
            for mx in ((0, 1, 2, 3, 8, 2, 0) if not light else (rng.choice((0, 1, 2)), 8, rng.choice((0, 1, 2)))):
                s = {"from": frm, "dir": direction, "max": mx, "at": -1, "exc": ""}
                try:
                    at = res.get_nearest_availability_date(inst(frm, micro), direction, mx)
                    m = minutes(at, micro)
                    s["at"] = -1 if m is None else m
                except RuntimeError as x:
                    s["exc"] = "RecursionError" if isinstance(x, RecursionError) else "RuntimeError"
                except ZeroDivisionError:
                    s["exc"] = "ZeroDivisionError"
                except Exception as x:
                    s["exc"] = type(x).__name__
                ev["searches"].append(s)
    return ev


def expressions(tier, seed):
    rng = random.Random(seed)
    leaves = VALID_LEAVES + INVALID_LEAVES
    out = [(l, False) for l in leaves]
    # depth 2: every leaf with every leaf / number under every operator
    for l in leaves:
        for r in leaves + NUMBERS:
            for o in OPS:
                out.append((op(o, l, r), True))
    # depth 3: seeded sample (quick) / larger sample (thorough); valid leaves mostly
    d2 = [op(o, l, r) for l in VALID_LEAVES for r in VALID_LEAVES + NUMBERS[:5] for o in OPS]
    n3 = 1500 if tier == "quick" else 20000
    for _ in range(n3):
        a = rng.choice(d2)
        b = rng.choice(d2 + VALID_LEAVES + NUMBERS[:5] + INVALID_LEAVES[:2])
        o = rng.choice(OPS)
        out.append((op(o, a, b), True))
        if rng.random() < 0.3:
            out.append((op(rng.choice(OPS), rng.choice(VALID_LEAVES), a), True))
    return out


def run(tier, seed, log):
    t0 = time.time()
    common.pjplan()
    rng = random.Random(seed + 5)
    exprs = expressions(tier, seed)
    events = []
    for i, (e, light) in enumerate(exprs):
        events.append(observe(i, e, rng, light=light and i % 7 != 0))
    nprobe = sum(len(e["probes"]) + len(e["searches"]) for e in events)
    log("calendar: %d expressions, %d observations recorded (%.0fs)" % (len(events), nprobe, time.time() - t0))
    jobs = 8
    per = max(200, -(-len(events) // jobs))
    batches = [events[i:i + per] for i in range(0, len(events), per)]
    j = tlc.judge_batches("CalendarTrace", {}, batches, "cal", jobs=jobs)
    fails = []
    seen = set()
    for t in j["fails_full"]:
        eid, clause, detail = t[1], t[2], t[3]
        key = (eid, clause)
        if key in seen:
            continue
        seen.add(key)
        fails.append({"property": "C17", "engine": "calendar", "clause": clause, "expr": events[eid]["expr"],
                      "detail": detail, "text": "expr#%d %s at %s" % (eid, clause, detail)})
    nontriv = sum(1 for e in events if e["expr"]["k"] == "op" or e["built"] != "ok")
    cov = {"expressions": len(events), "observations": nprobe, "nontrivial": nontriv,
           "judge_states": j["states"],
           "rejected_definitions": sum(1 for e in events if e["built"] != "ok"),
           "samples": [{"expr": e["expr"], "built": e["built"], "probe": (e["probes"] or [None])[0],
                        "search": (e["searches"] or [None])[0]} for e in events[40:43]]}
    log("calendar: judged %d expressions, %d failing clauses (%.0fs)" % (j["judged"], len(fails), time.time() - t0))
    return {"engine": "calendar", "tier": tier, "seed": seed, "wall_s": time.time() - t0, "fails": fails,
            "coverage": cov}


def replay(case, log):
    rng = random.Random(1)
    ev = observe(0, case["expr"], rng)
    j = tlc.judge_batches("CalendarTrace", {}, [[ev]], "calrp", jobs=1)
    return sorted(set(t[2] for t in j["fails_full"]))


def evidence(prop, res):
    cov = res["coverage"]
    coverage = {
        "states": cov["judge_states"], "transitions": cov["judge_states"],
        "traces_validated_against_impl": cov["expressions"],
        "evaluations": cov["observations"], "distinct_nontrivial": cov["nontrivial"],
        "rule": "every leaf calendar (16 valid, 13 invalid definitions) alone and combined with every leaf / "
                "number under + - * / | (depth 2, complete), plus seeded depth-3 trees; each built with the real "
                "classes, probed on the days of a 3-week window at 00:00 and 09:00 and at validity boundaries "
                "(+-1 minute), searched forward/backward with horizons 0..8; non-trivial = operator expression "
                "or rejected definition; expressions are distinct by construction",
        "samples": cov["samples"], "exhaustive": False,
        "rejected_definitions": cov["rejected_definitions"],
        "checker_cmd": "tlc CalendarTrace.tla (Eval/Valid/Search of Calendar.tla on every observation)",
    }
    assumptions = ["TLC and the float->rational conversion (denominator <= 4096, 1e-9) are trusted",
                   "division by an operand that is 0 on the probed date is outside the property's domain",
                   "FuncCalendar callbacks are arbitrary code: three named functions (x/2, x or 0, x+1; None passed through) stand for them"]
    return {"level": "model_checking", "coverage": coverage, "assumptions": assumptions}
