"""Shared plumbing: paths, clock control, import of pjplan from /repo's working tree, hashing.

Nothing in here decides a property.
"""
import hashlib
import os
import sys

VERIF = os.path.dirname(os.path.dirname(os.path.abspath(__file__)))
REPO = os.environ.get("PJPLAN_REPO", "/repo")
SRC = os.path.join(REPO, "src")
WORK = os.path.join(VERIF, ".work")
SPEC = os.path.join(VERIF, "spec")
GUARD = "PJPLAN_VERIF"

sys.dont_write_bytecode = True
os.environ.setdefault("PYTHONHASHSEED", "0")
os.environ[GUARD] = "1"


def seed() -> int:
    try:
        return int(os.environ.get("VERIF_SEED", "0"))
    except ValueError:
        return 0


# ---------------------------------------------------------------------------------------------
# Clock control.  pjplan does `from datetime import datetime` and calls datetime.now() in
# schedule.py and the renderers.  We replace datetime.datetime by a subclass with a settable
# now() BEFORE pjplan is imported; every `from datetime import datetime` inside pjplan then
# binds the fake.  Values produced by arithmetic are instances of the subclass, which compare
# and format exactly like ordinary datetimes.
# ---------------------------------------------------------------------------------------------
import datetime as _dtmod

_RealDT = _dtmod.datetime


class FakeDT(_RealDT):
    _now = None

    @classmethod
    def now(cls, tz=None):
        if cls._now is None:
            return _RealDT.now(tz)
        n = cls._now
        return cls(n.year, n.month, n.day, n.hour, n.minute, n.second, n.microsecond)


def install_clock():
    if _dtmod.datetime is not FakeDT:
        _dtmod.datetime = FakeDT


def set_now(dt):
    FakeDT._now = dt


_pj = None


def pjplan():
    """Import pjplan from /repo/src as it is right now (no bytecode, fake clock installed)."""
    global _pj
    if _pj is None:
        install_clock()
        if SRC not in sys.path:
            sys.path.insert(0, SRC)
        import pjplan as m
        assert os.path.abspath(m.__file__).startswith(os.path.abspath(SRC)), m.__file__
        import pjplan.schedule as s
        assert s.datetime is FakeDT, "clock not bound"
        _pj = m
    return _pj


def tree_hash(*dirs) -> str:
    h = hashlib.sha256()
    for d in dirs:
        for root, dn, fn in sorted(os.walk(d)):
            dn[:] = sorted(x for x in dn if x not in ("__pycache__", ".git", ".work"))
            for f in sorted(fn):
                if f.endswith((".pyc",)):
                    continue
                p = os.path.join(root, f)
                h.update(p.encode())
                try:
                    with open(p, "rb") as fh:
                        h.update(fh.read())
                except OSError:
                    pass
    return h.hexdigest()


def repo_hash() -> str:
    return tree_hash(SRC)
