"""Engine `sched`: forward and backward scheduling (C02 C03 C04 C06 C07 C08 C09 C14).

Inputs (WBS shape x link placement x attributes x resources/calendars x flags x clock) are generated
(systematically for small shapes, seeded random beyond), built through the public API, scheduled
by the real schedulers under a frozen clock, and the complete execution (usage ledger in
reservation order, dates, report answers, repeated calls, other clock values) is handed to TLC,
which evaluates every clause with spec/Sched.tla (spec/SchedTrace.tla).
"""
import datetime as _dt
import itertools
import random
import signal
import time
from fractions import Fraction

from . import common, tlc
from . import eng_calendar as cal

PROPS = ["C02", "C03", "C04", "C06", "C07", "C08", "C09", "C14"]
DAY = 1440
MISSING = -1
NOQ = [0, 0]
MAXROWS = 1000              # more ledger rows than any generated input can need (<= 10 tasks x 96 days)
NONE_NAME = "<none>"          # Task.resource = None (JSON has no null for TLC)


def rname_of(name):
    """model name -> the name used with the library: '' and 0 are names like any other, distinct from None"""
    return {NONE_NAME: None, "<empty>": "", "<zero>": 0}.get(name, name)


def aid(I, k):
    """model id -> the id used with the library (some inputs mix int and str ids in one WBS)"""
    return "T%d" % k if I.get("strids") and k % 2 == 0 else int(str(k))      # a fresh int object every time


def q4(k):
    """k quarter units as a rational"""
    fr = Fraction(k, 4)
    return [fr.numerator, fr.denominator]


# ---------------------------------------------------------------------------------------------
# calendars for scheduling: day-granular (same value at every time of a day)
# ---------------------------------------------------------------------------------------------
def cal_pool(base_day):
    """(name, expr, ample, never).  base_day: day number around which dated calendars are placed."""
    W = cal.weekly_list
    D = cal.direct
    b = base_day
    return [
        ("wk8", W([0, 1, 2, 3, 4], cal.q(8)), True, False),
        ("mwf4", W([0, 2, 4], cal.q(4)), True, False),
        ("all2", W([0, 1, 2, 3, 4, 5, 6], cal.q(2)), True, False),
        ("half", W([0, 1, 2, 3, 4], cal.q(1, 2)), True, False),
        ("mix", cal.weekly_dict({0: cal.q(8), 1: cal.q(4), 3: cal.q(1), 5: cal.q(2)}), True, False),
        # a pooled team: more than 24 units a day (36: a quarter unit is ten minutes of such a day - dates stay whole minutes)
        ("team36", W([0, 1, 2, 3, 4], cal.q(36)), True, False),
        ("uneven", cal.weekly_dict({0: cal.q(2), 1: cal.q(8), 2: cal.q(8), 3: cal.q(8), 4: cal.q(8)}), True, False),
        ("dated|wk", cal.op("|", D({b + 1: cal.q(3), b + 2: cal.q(0), b + 3: cal.q(6)}), W([0, 1, 2, 3, 4], cal.q(8))),
         True, False),
        # a dated calendar whose days were changed afterwards (set_units): the later value counts
        ("steps|wk", cal.op("|", cal.direct_steps({b + 1: cal.q(8), b + 2: cal.q(8)}, {b + 2: cal.q(2), b + 3: cal.q(6)}),
                            W([0, 1, 2, 3, 4], cal.q(8))), True, False),
        ("wk-1", cal.op("-", W([0, 1, 2, 3, 4], cal.q(8)), cal.number(cal.q(2))), True, False),
        ("wk*half", cal.op("*", W([0, 1, 2, 3, 4, 5], cal.q(4)), cal.number(cal.q(1, 2))), True, False),
        ("wk+sat", cal.op("+", W([0, 1, 2, 3, 4], cal.q(6)), W([5], cal.q(3))), True, False),
        # bounded validity (day-granular bounds: 00:00 .. 23:59): with a fallback (ample), and alone (may run out)
        ("bounded|wk", cal.op("|", W([0, 1, 2, 3, 4], cal.q(6), (b - 2) * DAY, (b + 9) * DAY + 1439),
                              W([0, 1, 2, 3, 4], cal.q(8))), True, False),
        ("wk+bounded", cal.op("+", W([0, 1, 2, 3, 4], cal.q(4)),
                              cal.fixed(cal.q(2), (b + 1) * DAY, (b + 3) * DAY + 1439)), True, False),
        ("bounded", W([0, 1, 2, 3, 4, 5, 6], cal.q(4), max(b - 40, 0) * DAY, (b + 45) * DAY + 1439), False, False),
        # a bounded factor: outside its window a FixedCalendar contributes 0, so the product is 0 there
        ("wk*window", cal.op("*", W([0, 1, 2, 3, 4], cal.q(8)),
                             cal.fixed(cal.q(1, 2), max(b - 30, 0) * DAY, (b + 100) * DAY + 1439)), False, False),
        # a bounded FIRST operand of a sum / difference: no information outside its validity, the rest counts
        ("bounded+dated", cal.op("+", W([0, 1, 2, 3, 4], cal.q(4), (b - 1) * DAY, (b + 4) * DAY + 1439),
                                 W([0, 1, 2, 3, 4, 5], cal.q(2))), True, False),
        # validity starting inside the project window (the first valid day is a start candidate)
        ("starts-later", cal.op("|", W([0, 1, 2, 3, 4, 5, 6], cal.q(8), (b + 2) * DAY, None),
                                W([0, 1, 2, 3, 4], cal.q(4), None, (b + 1) * DAY + 1439)), True, False),
        # NOT day-granular (validity ends at midnight of a day: capacity at 00:00, none later that day): the
        # schedulers probe such a day at different times of day, so only C06 (purity, repeatability) and C14
        # are judged on inputs that use it (flag `tod`)
        ("tod-end", cal.op("|", W([0, 1, 2, 3, 4, 5, 6], cal.q(8), None, (b + 3) * DAY),
                           W([0, 1, 2, 3, 4, 5, 6], cal.q(2), (b + 6) * DAY, None)), False, False),
        # a quotient whose divisor is 0 on some days (weekends): there is no capacity to speak of on such a day;
        # calc must end with a schedule or a RuntimeError (C14), never with ZeroDivisionError.  Like `tod-end`,
        # inputs that use it are judged for C06 (purity, repeatability) and C14 only
        ("div0", cal.op("/", W([0, 1, 2, 3, 4, 5, 6], cal.q(8)), W([0, 1, 2, 3, 4], cal.q(2))), False, False),
        ("zero", W([0, 1, 2, 3, 4, 5, 6], cal.q(0)), False, True),
        ("empty", D({}), False, True),
        ("fixed0", cal.fixed(cal.q(0)), False, True),
    ]


DEFAULT_EXPR = cal.weekly_list([0, 1, 2, 3, 4], cal.q(8))


# ---------------------------------------------------------------------------------------------
# input generation
# ---------------------------------------------------------------------------------------------
def dfs_renumber(parents, order_children):
    """parents: list (0 = root) for nodes 1..n in creation order; returns DFS numbering."""
    n = len(parents)
    kids = {i: [] for i in range(0, n + 1)}
    for i, p in enumerate(parents, start=1):
        kids[p].append(i)
    for k in kids:
        order_children(kids[k])
    order = []

    def go(x):
        order.append(x)
        for c in kids[x]:
            go(c)

    for r in kids[0]:
        go(r)
    new = {old: i + 1 for i, old in enumerate(order)}
    return new, kids


def anc_of(tasks, t):
    out = set()
    p = tasks[t - 1]["par"]
    while p:
        out.add(p)
        p = tasks[p - 1]["par"]
    return out


def desc_of(tasks, t):
    out = set()
    st = list(tasks[t - 1]["kids"])
    while st:
        x = st.pop()
        out.add(x)
        st.extend(tasks[x - 1]["kids"])
    return out


def gen_structure(rng, n, shape=None):
    """random ordered forest with n nodes, returned as task dicts in DFS order"""
    parents = []
    for i in range(1, n + 1):
        if shape is not None:
            parents.append(shape[i - 1])
        else:
            parents.append(rng.choice([0] * 2 + list(range(1, i))) if i > 1 else 0)
    new, kids = dfs_renumber(parents, lambda l: rng.shuffle(l) if shape is None else None)
    tasks = [None] * n
    for old in range(1, n + 1):
        t = new[old]
        tasks[t - 1] = {"par": new[parents[old - 1]] if parents[old - 1] else 0,
                        "kids": [new[c] for c in kids[old]], "pre": []}
    roots = [new[r] for r in kids[0]]
    return tasks, roots


def legal_link(tasks, s, p):
    """API-legal: p not s, not kin, no direct cycle through declared links"""
    if p == s or p in anc_of(tasks, s) or s in anc_of(tasks, p):
        return False
    # declared-link cycle: s reachable from p via pre
    seen, st = set(), [p]
    while st:
        x = st.pop()
        if x == s:
            return False
        if x in seen or x > len(tasks):
            continue
        seen.add(x)
        st.extend(tasks[x - 1]["pre"])
    return True


def gen_case(rng, direction, n, cid, opts=None):
    opts = opts or {}
    tasks, roots = gen_structure(rng, n, opts.get("shape"))
    ids = rng.sample(range(-1, 3 * n + 2), n) if rng.random() < 0.7 else list(range(0, n))    # id 0 is an id like any other
    if rng.random() < 0.3:
        ids = [i + 1000 if i > 0 else i for i in ids]        # large numbers: equal ids are not the same int object
    # project start / end and clock
    base = rng.choice([7, 8, 9, 10, 11, 12, 13])             # day number: Monday..Sunday of week 2
    if direction == "bwd":
        base += 70                                            # backward schedules grow towards the epoch
    if rng.random() < 0.15:
        # around the ends of months and years and the leap day (2024-02-29 is day 59, 2025-01-01 is day 366)
        base = rng.choice([28, 29, 30, 31, 57, 58, 59, 60, 363, 364, 365, 366, 367]) + (3 if direction == "bwd" else 0)
    tod = rng.choice([0, 0, 540, 600])
    pstart = base * DAY + tod
    if direction == "fwd":
        now = pstart + rng.choice([-3 * DAY - 420, -DAY, -1, 0, 0, 0, 1, 2 * DAY + 60, 4 * DAY])
    else:
        now = pstart + rng.choice([-30 * DAY, 0, 5 * DAY])
    # links
    nlinks = opts.get("links", rng.choice([0, 1, 1, 2, 2, 3, 4]))
    for _ in range(nlinks):
        s, p = rng.randint(1, n), rng.randint(1, n)
        if legal_link(tasks, s, p) and p not in tasks[s - 1]["pre"]:
            tasks[s - 1]["pre"].append(p)
    # external predecessors (forward: their dates bound the start)
    ext = []
    if rng.random() < 0.18:
        e_end = pstart + rng.choice([-2 * DAY, DAY + 300, 3 * DAY])
        if rng.random() < 0.25:
            ext.append({"start": MISSING if rng.random() < 0.5 else e_end - DAY, "end": MISSING})
        else:
            ext.append({"start": e_end - DAY, "end": e_end})
        holder = rng.randint(1, n)
        tasks[holder - 1]["pre"].append(n + 1)
        ext[0]["inwbs"] = rng.random() < 0.5
        ext[0]["id"] = rng.choice(ids) if rng.random() < 0.4 else 9001      # may collide with a member's id
        if ext[0]["id"] != 9001 and rng.random() < 0.8:
            # ... and the member with that id is a prerequisite of the same task, listed after the outside one
            twin = ids.index(ext[0]["id"]) + 1
            if legal_link(tasks, holder, twin) and twin not in tasks[holder - 1]["pre"]:
                tasks[holder - 1]["pre"].append(twin)
        # the outside task may be a FORMER member: removed from this WBS while the link to it stayed
        ext[0]["removed"] = ext[0]["id"] == 9001 and rng.random() < 0.3
        # the outside predecessor may wait for an unscheduled task of its own project: none of this WBS's business
        ext[0]["chain"] = rng.random() < 0.4
    # backward: a successor outside the WBS that has no dates (an unscheduled task of another project) says
    # nothing about when its predecessor must end, and is not a task to be scheduled here
    xsucc = []
    if direction == "bwd" and rng.random() < 0.12:
        xsucc.append({"t": rng.randint(1, n), "inwbs": rng.random() < 0.5, "after": rng.choice([0, 0, 1, 14]), "twin": 0})
        inside = [s for s in range(1, n + 1) if xsucc[0]["t"] in tasks[s - 1]["pre"]]
        if inside and xsucc[0]["after"] and rng.random() < 0.7:
            xsucc[0]["twin"] = rng.choice(inside)      # ... it carries the id of an inside successor of that task
    # resources
    pool = cal_pool(base)
    names = ["A", "B", NONE_NAME]
    if rng.random() < 0.15:
        names = [rng.choice(["<empty>", "<zero>", "default"]), "A", NONE_NAME]
    resources = []
    used = {}
    never_ok = opts.get("never", rng.random() < 0.06)
    for t in tasks:
        nm = rng.choice(names[:2]) if rng.random() < 0.85 else NONE_NAME
        if nm not in used:
            supplied = rng.random() < (0.8 if nm != NONE_NAME else 0.25)
            if supplied:
                choices = [c for c in pool if (never_ok or not c[3])]
                c = rng.choice(choices if not never_ok else [x for x in pool if x[3]] + choices[:2])
                if rng.random() < 0.08:
                    c = [x for x in pool if x[0] == "tod-end"][0]
                elif rng.random() < 0.04:
                    c = [x for x in pool if x[0] == "div0"][0]
                elif rng.random() < 0.05:
                    c = [x for x in pool if x[0] == "uneven"][0]
                resources.append({"name": nm, "expr": c[1], "supplied": True, "ample": c[2], "never": c[3],
                                  "calname": c[0]})
            else:
                resources.append({"name": nm, "expr": DEFAULT_EXPR, "supplied": False, "ample": True, "never": False,
                                  "calname": "default"})
            used[nm] = len(resources)
        t["res"] = used[nm]
    # work for several days of a pooled team (more than 24 units a day)
    for t in tasks:
        if resources[t["res"] - 1]["calname"] == "team36" and not t["kids"] and rng.random() < 0.5:
            t["bigest"] = True
    # eighths of a unit only where every capacity still gives whole-minute dates
    eighths = all(r["supplied"] and r["calname"] in ("half", "all2", "mwf4", "wk*half") for r in resources)
    # attributes
    for i, t in enumerate(tasks, start=1):
        leaf = not t["kids"]
        t["id"] = ids[i - 1]
        # (the flag on a summary task means nothing: a summary spans its children)
        t["ms"] = rng.random() < (0.12 if leaf else 0.08)
        t["est"] = NOQ
        t["spent"] = NOQ
        t["minStart"] = MISSING
        t["fstart"] = MISSING
        t["fend"] = MISSING
        if t["ms"] and leaf:
            # rarely combined: a milestone that carries an estimate, or dates typed in by the user - it still has
            # zero duration and is placed by its prerequisites
            if rng.random() < 0.3:
                t["est"] = q4(rng.choice([0, 4, 8, 16]))
                if rng.random() < 0.4:
                    t["spent"] = q4(rng.choice([0, 4, 40]))
            if direction == "fwd" and rng.random() < 0.3:
                t["fstart"] = pstart + rng.choice([-3 * DAY, 0, DAY + 480, 3 * DAY, 9 * DAY])
                if rng.random() < 0.5:
                    t["fend"] = t["fstart"] + rng.choice([0, DAY])
            continue
        r = rng.random()
        if r < 0.1:
            pass
        elif r < 0.17:
            t["est"] = q4(0)
        elif eighths and rng.random() < 0.5:
            fr = Fraction(rng.choice([1, 3, 5, 7, 9, 11, 25]), 8)         # more than two decimals: 0.125, 0.375, ...
            t["est"] = [fr.numerator, fr.denominator]
        else:
            t["est"] = q4(rng.choice([1, 2, 3, 4, 4, 6, 8, 8, 10, 12, 16, 20, 24, 32, 40, 48]))
        if t.pop("bigest", False):
            t["est"] = q4(rng.choice([120, 160]))
        r = rng.random()
        if r < 0.25 and t["est"] != NOQ:
            e = Fraction(*t["est"])
            t["spent"] = q4(int(rng.choice([0, e * 2, e * 4, e * 4 + 4, e * 4 + 1])))
        if not leaf:
            if direction == "fwd" and rng.random() < 0.15:
                t["minStart"] = pstart + rng.choice([3, 9]) * DAY        # min_start on a summary: children do not inherit it
            # user values on summaries must be replaced by roll-ups
            if rng.random() < 0.3 and direction == "fwd":
                t["fstart"] = now - rng.choice([1, 3, 9]) * DAY
                t["fend"] = t["fstart"] + rng.choice([0, DAY])
            continue
        if direction == "bwd" and opts.get("bwdfixed") and rng.random() < 0.4:
            t["fstart"] = pstart - rng.choice([1, 3, 20]) * DAY
        if direction == "fwd":
            if rng.random() < 0.2:
                t["minStart"] = pstart + rng.choice([-2 * DAY, 0, DAY, 2 * DAY + 540, 5 * DAY])
            r = rng.random()
            if r < 0.07:
                t["fstart"] = pstart + rng.choice([-3 * DAY, 0, DAY + 480, 3 * DAY])
            elif r < 0.12:
                t["fstart"] = now - rng.choice([2, 5]) * DAY
                t["fend"] = t["fstart"] + rng.choice([0, 600, DAY])      # completed in the past
                if now % DAY >= 120 and rng.random() < 0.3:
                    t["fend"] = now - 90                                 # ... on the clock's own day, before the clock
    I = {"dir": direction, "balance": opts.get("balance", rng.random() < 0.7),
         "submin": rng.choice([0, 0, 0, 1, 30, 59]) * 1000000 + rng.choice([0, 0, 250000, 999000]),
         "defEst": q4(rng.choice([0, 0, 8, 10, 1])), "pstart": pstart, "now": now, "tasks": tasks, "roots": roots,
         "resources": resources, "ext": ext, "xsucc": xsucc, "strids": rng.random() < 0.08, "linksfirst": rng.random() < 0.25,
         "noise": False, "tod": any(r["calname"] in ("tod-end", "div0") for r in resources)}
    if direction == "fwd" and rng.random() < 0.05:
        # a milestone that still carries its dates from an earlier plan, listed AFTER the task that waits for it and
        # itself waiting for a task listed later still
        leaves = [i for i, t in enumerate(tasks, start=1) if not t["kids"]]
        if len(leaves) >= 3:
            a, b, c = sorted(rng.sample(leaves, 3))
            if (b in tasks[a - 1]["pre"] or legal_link(tasks, a, b)) and not tasks[b - 1]["pre"]:
                tb = tasks[b - 1]
                if b not in tasks[a - 1]["pre"]:
                    tasks[a - 1]["pre"].append(b)
                if legal_link(tasks, b, c):
                    tb["pre"].append(c)
                    tb.update(ms=True, est=NOQ, spent=NOQ, minStart=MISSING, fstart=now - 5 * DAY, fend=now - 5 * DAY)
    for t in tasks:
        t["noise"] = 0
    if rng.random() < 0.08:
        # float residues: remaining work of 5.5e-17, or an estimate a hair below / above a quarter unit.  The model
        # works with exact rationals and cannot see them: such inputs are judged for C14, C06 and the start-day
        # clause of C04 only (flag `noise`)
        leaves = [t for t in tasks if not t["kids"] and not t["ms"] and t["fend"] == MISSING]
        if leaves:
            t = rng.choice(leaves)
            t["noise"] = rng.choice([1, 2, 2, 3])
            if t["noise"] == 1:
                t["est"], t["spent"] = [3, 10], [3, 10]
            else:
                t["est"] = q4(8 * 4)         # a whole day of the usual calendars: the residue is all that is left of it
            I["noise"] = True
    return {"id": cid, "I": I}


# ---------------------------------------------------------------------------------------------
# building and running
# ---------------------------------------------------------------------------------------------
def inst(m):
    return cal.inst(m)


def qnum(qv):
    return None if qv == NOQ else cal.num(qv)


def noisy(t, fld):
    """the python number for a model amount; inputs flagged `noise` carry float residues the model cannot see"""
    v = qnum(t[fld])
    k = t.get("noise", 0)
    if k == 1:
        return 0.1 + 0.2 if fld == "est" else 0.3            # remaining work 5.5e-17
    if k in (2, 3) and fld == "est" and v:
        return v - 9e-10 if k == 2 else v + 9e-10
    return v


def build_wbs(I, keep=None):
    """Real WBS for input I (only the task numbers in `keep`, when given).  Returns (wbs, tasks by number, ext)."""
    pj = common.pjplan()
    n = len(I["tasks"])
    objs = {}
    for i, t in enumerate(I["tasks"], start=1):
        if keep is not None and i not in keep:
            continue
        kw = {}
        if t["fstart"] != MISSING:
            kw["start"] = inst(t["fstart"])
        if t["fend"] != MISSING:
            kw["end"] = inst(t["fend"])
        if t["minStart"] != MISSING:
            kw["min_start"] = inst(t["minStart"])
        objs[i] = pj.Task(aid(I, t["id"]), name=None if t["id"] % 5 == 0 else "T%d" % t["id"], resource=rname_of(I["resources"][t["res"] - 1]["name"]),
                          estimate=noisy(t, "est"), spent=noisy(t, "spent"), milestone=t["ms"],
                          tag="x%d" % i, note=None if i % 2 else "", **kw)
    exts = []
    other = pj.WBS()
    for k, e in enumerate(I["ext"], start=1):
        # an outside predecessor: free-standing or a member of another WBS; its id may equal a member's id
        x = pj.Task(aid(I, e.get("id", 9000 + k)), name="ext%d" % k,
                    start=None if e["start"] == MISSING else inst(e["start"]),
                    end=None if e["end"] == MISSING else inst(e["end"]))
        if e.get("inwbs") and not e.get("removed"):
            other.roots.append(x)
        if e.get("chain"):
            x.predecessors = [pj.Task(9500 + k, name="extpre%d" % k, estimate=8)]
        exts.append(x)
    w = pj.WBS()

    def attach(parent_list, numbers):
        for c in numbers:
            if c in objs:
                parent_list.append(objs[c])
                attach(objs[c].children, I["tasks"][c - 1]["kids"])

    def link():
        for i, t in enumerate(I["tasks"], start=1):
            if i not in objs:
                continue
            pre = []
            for p in t["pre"]:
                if p > n:
                    pre.append(exts[p - n - 1])
                elif p in objs:
                    pre.append(objs[p])
            if pre:
                objs[i].predecessors = pre

    # the same plan may be put together in another order: the dependencies first (between tasks that are still
    # free-standing), the hierarchy afterwards - what a task remembers about its ancestors must follow
    done = False
    if I.get("linksfirst") and keep is None:
        try:
            link()
            # ... and the hierarchy bottom-up: a subtree is complete before it is hung below its parent
            for i in sorted(objs, reverse=True):
                for o in objs.values():
                    o.all_parents, o.all_predecessors
                kids = [objs[c] for c in I["tasks"][i - 1]["kids"] if c in objs]
                if kids:
                    objs[i].children = kids
            w.roots = [objs[r] for r in I["roots"] if r in objs]
            done = True
        except RuntimeError:
            return build_wbs(dict(I, linksfirst=False), keep)
    if not done:
        attach(w.roots, I["roots"])
        link()
    for k, e in enumerate(I["ext"], start=1):
        if e.get("removed"):
            w.roots.append(exts[k - 1])
            w.remove(exts[k - 1])
    for k, e in enumerate(I.get("xsucc", []), start=1):
        if e["t"] in objs:
            sx = pj.Task(aid(I, I["tasks"][e["twin"] - 1]["id"]) if e.get("twin") else 9600 + k, name="extsucc%d" % k,
                         estimate=8)
            if e.get("after"):
                # dated, and not before the requested end: it cannot ask for anything the deadline does not ask for
                sx.start = inst(I["pstart"] + e["after"] * DAY)
                sx.end = sx.start + _dt.timedelta(days=1)
            if e["inwbs"]:
                other.roots.append(sx)
            sx.predecessors = [objs[e["t"]]]
    return w, objs, exts


def make_scheduler(I, res=None):
    pj = common.pjplan()
    if res is None:
        res = [pj.Resource(rname_of(r["name"]), cal.build(r["expr"])) for r in I["resources"] if r["supplied"]]
    sub = _dt.timedelta(microseconds=I.get("submin", 0))
    if I.get("submin", 0) % 2 == 0 and I["balance"]:
        res = (r for r in res)              # the resources as a one-shot iterable
    if I["dir"] == "fwd":
        return pj.ForwardScheduler(start=inst(I["pstart"]) + sub, resources=res, balance_resources=I["balance"],
                                   default_estimate=cal.num(I["defEst"]))
    return pj.BackwardScheduler(end=inst(I["pstart"]) + sub, resources=res, balance_resources=I["balance"],
                                default_estimate=cal.num(I["defEst"]))


class _Timeout(Exception):
    pass


def _alarm(signum, frame):
    raise _Timeout()


_RETRIES = [3]
_CLOCK = [None]             # when this process started on its chunk of inputs (set by _execute_chunk only)
_BUDGET = 45.0


def guarded(fn, seconds=8.0):
    """returns (out, value): out in ok / RuntimeError / RecursionError / timeout / <other exception class>.
    A timeout is only believed after a second, much longer attempt (a loaded machine must not look like
    an unbounded loop); at most 3 such retries per process."""
    if _CLOCK[0] is not None and time.time() - _CLOCK[0] > _BUDGET:
        # this process (50 inputs; about a second with the unchanged library) has used many times its
        # share: what is left is not executed but counted as not terminating, so that a check always ends
        return "timeout", None
    out, val = _guarded(fn, seconds)
    if out == "timeout" and _RETRIES[0] > 0:
        _RETRIES[0] -= 1
        out, val = _guarded(fn, 40.0)
    return out, val


def _guarded(fn, seconds):
    old = signal.signal(signal.SIGALRM, _alarm)
    signal.setitimer(signal.ITIMER_REAL, seconds)
    try:
        return "ok", fn()
    except _Timeout:
        return "timeout", None
    except RecursionError:
        return "RecursionError", None
    except RuntimeError:
        return "RuntimeError", None
    except Exception as e:
        return type(e).__name__, None
    finally:
        signal.setitimer(signal.ITIMER_REAL, 0)
        signal.signal(signal.SIGALRM, old)


def tmin(dt):
    """datetime -> (floor minute, exact?)"""
    if dt is None:
        return MISSING, True
    d = dt - common.FakeDT(*cal.EPOCH)
    us = d.days * 86400 * 10 ** 6 + d.seconds * 10 ** 6 + d.microseconds
    m, rem = divmod(us, 60 * 10 ** 6)
    if rem in (0,):
        return int(m), True
    if rem <= 1:                       # timedelta rounds to 1 us
        return int(m), True
    if rem >= 60 * 10 ** 6 - 1:
        return int(m) + 1, True
    return int(m), False


def project_wbs(w, with_dates=True):
    """structure + attributes of a WBS through public getters (ids only; ids are unique in a WBS)"""
    out = []
    for t in w.tasks:
        d = t.to_dict()
        d["estimate"] = t.estimate
        d["spent"] = t.spent
        rec = {"id": repr(t.id), "par": repr(t.parent.id) if t.parent else "", "kids": [repr(c.id) for c in t.children],
               "pre": sorted(repr(p.id) for p in t.predecessors), "suc": sorted(repr(s.id) for s in t.successors)}
        if with_dates:
            rec["attrs"] = sorted((k, repr(v)) for k, v in d.items())
        else:
            rec["custom"] = sorted((k, repr(v)) for k, v in d.items()
                                   if k not in ("start", "end", "estimate", "spent", "id"))
        out.append(rec)
    return {"roots": [repr(t.id) for t in w.roots], "tasks": out}


def extract(I, sched, numbers):
    """result record R from a Schedule object"""
    n = len(I["tasks"])
    R = {"out": "ok", "start": [MISSING] * n, "end": [MISSING] * n, "est": [NOQ] * n, "spent": [NOQ] * n,
         "wstart": MISSING, "wend": MISSING, "rows": [], "inexact": False, "overflow": False, "foreign": 0,
         "sx": [False] * n, "ex": [False] * n}         # the date has a part below the minute (minutes are floored)
    byid = {}
    for t in sched.schedule.tasks:
        byid.setdefault(t.id, t)
    num_of_id = {aid(I, I["tasks"][i - 1]["id"]): i for i in numbers}
    idx_of = {id(t): num_of_id.get(t.id, 0) for t in sched.schedule.tasks}     # rows name result objects
    for i in numbers:
        t = byid.get(aid(I, I["tasks"][i - 1]["id"]))
        if t is None:
            continue
        for fld, key in (("start", t.start), ("end", t.end)):
            m, ex = tmin(key)
            R[fld][i - 1] = m
            R["inexact"] = R["inexact"] or not ex
            R["sx" if fld == "start" else "ex"][i - 1] = not ex
        R["est"][i - 1] = cal.to_q(t.estimate)
        R["spent"][i - 1] = cal.to_q(t.spent)
    m, ex = tmin(sched.schedule.start)
    R["wstart"] = m
    m, ex = tmin(sched.schedule.end)
    R["wend"] = m
    rname = {rname_of(r["name"]): k for k, r in enumerate(I["resources"], start=1)}
    robj = {id(r): rname.get(r.name, 0) for r in sched.resources}
    allrows = sched.resource_usage.rows()
    # no generated input needs more than 13 rows per task (measured); 40 per task is "longer than any input needs"
    maxrows = min(MAXROWS, 40 * n + 40)
    R["overflow"] = len(allrows) > maxrows
    for row in allrows[:(60 if R["overflow"] else maxrows)]:
        m, ex = tmin(row.date)
        tnum = idx_of.get(id(row.task), 0)
        if id(row.task) not in idx_of and not str(getattr(row.task, "name", "") or "").startswith("ext"):
            # a row for an object that is neither a task of the result nor one of the harness's outside
            # predecessors (left over from another calculation, say): what a reader of the report sees is work
            # booked for the task with that id - it counts for that task, and is reported as a foreign row
            tnum = num_of_id.get(getattr(row.task, "id", None), 0)
            R["foreign"] += 1
        R["rows"].append({"r": robj.get(id(row.resource), 0), "d": m // DAY if m % DAY == 0 else -999,
                          "t": tnum, "u": cal.to_q(row.units)})
    return R


def _as_a_caller_would(w):
    """things a caller may do before scheduling that must not matter: look at the plan's dates, take the default
    week table and edit the copy"""
    pj = common.pjplan()
    try:
        w.start, w.end
        h = pj.DEFAULT_CALENDAR.get_week_day_hours()
        h[5] = 4
        h[0] = 10
    except Exception:
        pass


def execute(case):
    """Run the real scheduler on the case; fills R and all observations."""
    I = case["I"]
    n = len(I["tasks"])
    numbers = list(range(1, n + 1))
    common.set_now(inst(I["now"]))
    w, objs, exts = build_wbs(I)
    _as_a_caller_would(w)
    before = project_wbs(w)
    s = make_scheduler(I)
    out, sc = guarded(lambda: s.calc(w))
    after = project_wbs(w)
    case["pure"] = {"before": before, "after": after, "separate": True, "structin": project_wbs(w, False),
                    "structout": {}}
    empty = {"out": out, "start": [], "end": [], "est": [], "spent": [], "wstart": MISSING, "wend": MISSING,
             "rows": [], "inexact": False, "overflow": False}
    case["obs"] = {"reserved": [], "filt": [], "resnames": True, "caps": []}
    case["rep"] = []
    case["clk"] = {"has": False, "now": 0, "R": {"out": "", "start": [], "end": [], "rows": [], "sameRows": False}}
    case["solo"] = {"has": False, "t": 0, "out": "", "start": 0, "end": 0}
    case["chain"] = {"out": "none", "start": [], "end": [], "est": [], "spent": [], "wstart": MISSING, "wend": MISSING}
    case["schedulable"] = schedulable_hint(I)
    case["lo"], case["hi"] = I["pstart"] // DAY - 3, I["pstart"] // DAY + 3
    if out != "ok":
        case["R"] = empty
        if I["dir"] == "bwd":
            case["lo"] -= 60
        else:
            case["hi"] += 60
        return case
    R = extract(I, sc, numbers)
    case["R"] = R
    # window of days
    days = [r["d"] for r in R["rows"]] + [x // DAY for x in R["start"] + R["end"] if x != MISSING] + \
           [I["pstart"] // DAY, I["now"] // DAY if I["dir"] == "fwd" else I["pstart"] // DAY]
    lo, hi = max(min(days) - 2, 1), max(days) + 2
    if hi - lo > 150:
        hi = lo + 150
    case["lo"], case["hi"] = lo, hi
    # purity facts
    in_objs = {id(t) for t in w.tasks}
    case["pure"]["separate"] = (sc.schedule is not w) and not any(id(t) in in_objs for t in sc.schedule.tasks)
    case["pure"]["structout"] = project_wbs(sc.schedule, False)
    # report answers
    rep = sc.resource_usage
    resobj = {}
    names = [r.name for r in sc.resources]
    ok_names = True
    for k, r in enumerate(I["resources"], start=1):
        if names.count(rname_of(r["name"])) != 1:
            ok_names = False
        else:
            resobj[k] = sc.resources[names.index(rname_of(r["name"]))]
    case["obs"]["resnames"] = ok_names
    touched = sorted({(r["r"], r["d"]) for r in R["rows"] if r["r"] in resobj})
    extra = [(k, lo) for k in resobj] + [(k, hi) for k in resobj]
    BAD = [-777777, 1]          # an answer that raised: compares unequal to every model value

    def ask(fn):
        try:
            return cal.to_q(fn())
        except Exception:
            return BAD

    for (k, d) in touched + extra:
        if d < 0:
            continue
        case["obs"]["reserved"].append({"r": k, "d": d, "u": ask(lambda: rep.reserved(resobj[k], inst(d * DAY)))})
    byid = {I["tasks"][i - 1]["id"]: i for i in numbers}
    for i in numbers[:4]:
        tid = aid(I, I["tasks"][i - 1]["id"])
        try:
            rows = rep.rows(lambda r, tid=tid: r.task.id == tid)
            case["obs"]["filt"].append({"t": i, "n": len(rows), "u": cal.to_q(sum((r.units for r in rows), 0))})
        except Exception:
            case["obs"]["filt"].append({"t": i, "n": -1, "u": BAD})
    for k in range(1, len(I["resources"]) + 1):
        if k in resobj:
            case["obs"]["caps"].append([ask(lambda: resobj[k].get_available_units(inst(d * DAY))) for d in
                                        range(lo, hi + 1)])
        else:
            case["obs"]["caps"].append([])

    def slim(out2, sc2):
        if out2 != "ok":
            return dict(empty, out=out2, sameRows=False)
        r2 = extract(I, sc2, numbers)
        r2["sameRows"] = r2["rows"] == R["rows"]      # JSON volume: identical ledgers are sent once
        if r2["sameRows"]:
            r2["rows"] = []
        return r2

    # repeated calls: (1) the same scheduler object again; (2) a fresh scheduler that was CONSTRUCTED under
    # another clock value; (3) a scheduler that has already scheduled a different WBS with the same ids
    o2, sc2 = guarded(lambda: s.calc(w))
    case["rep"].append(slim(o2, sc2))
    common.set_now(inst(I["now"] - 9 * DAY - 187))
    s3 = make_scheduler(I)
    common.set_now(inst(I["now"]))
    o3, sc3 = guarded(lambda: s3.calc(w))
    case["rep"].append(slim(o3, sc3))
    s6 = make_scheduler(I)
    wv = build_variant(I)
    guarded(lambda: s6.calc(wv))
    o6, sc6 = guarded(lambda: s6.calc(w))
    case["rep"].append(slim(o6, sc6))
    if o6 == "ok" and ok_names:
        # the resources of THIS result, whatever the scheduler listed for the plan it saw before
        try:
            names6 = [r.name for r in sc6.resources]
            if any(names6.count(rname_of(r["name"])) != 1 for r in I["resources"]):
                case["obs"]["resnames"] = False
        except Exception:
            case["obs"]["resnames"] = False
    # (4) Resource objects that served ANOTHER calendar in an earlier calc (calendar replaced afterwards)
    pj = common.pjplan()
    other_cal = cal.weekly_list([0, 1, 2, 3, 4, 5, 6], cal.q(3))
    robjs = [pj.Resource(rname_of(r["name"]), cal.build(other_cal)) for r in I["resources"] if r["supplied"]]
    guarded(lambda: make_scheduler(I, robjs).calc(wv))
    for ro, r in zip(robjs, [r for r in I["resources"] if r["supplied"]]):
        ro.calendar = cal.build(r["expr"])
    s7 = make_scheduler(I, robjs)
    o7, sc7 = guarded(lambda: s7.calc(w))
    case["rep"].append(slim(o7, sc7))
    # (5) Resource objects that were used by a scheduler with another project start / deadline (other times of day)
    robjs2 = [pj.Resource(rname_of(r["name"]), cal.build(r["expr"])) for r in I["resources"] if r["supplied"]]
    J = dict(I, pstart=I["pstart"] + (547 if I["dir"] == "fwd" else -547))
    guarded(lambda: make_scheduler(J, robjs2).calc(w))
    s8 = make_scheduler(I, robjs2)
    o8, sc8 = guarded(lambda: s8.calc(w))
    case["rep"].append(slim(o8, sc8))
    # (6) the schedule of the schedule: the result of the first calc (every task dated, whatever else the first
    # calc left on the copies) is scheduled again by a fresh scheduler; C07 speaks about this result as about any other
    o9, sc9 = guarded(lambda: make_scheduler(I).calc(sc.schedule))
    if o9 == "ok":
        r9 = extract(I, sc9, numbers)
        case["chain"] = {k: r9[k] for k in ("out", "start", "end", "est", "spent", "wstart", "wend")}
    else:
        case["chain"]["out"] = o9
    # another clock value at or before the project start
    fends = [t["fend"] for t in I["tasks"] if t["fend"] != MISSING]
    now2 = I["now"] - 3 * DAY - 417 if case["id"] % 2 else I["pstart"]
    if I["dir"] == "fwd" and I["now"] <= I["pstart"] and all(f <= now2 for f in fends):
        common.set_now(inst(now2))
        s4 = make_scheduler(I)
        o4, sc4 = guarded(lambda: s4.calc(w))
        r4 = slim(o4, sc4)
        case["clk"] = {"has": True, "now": now2, "R": {"out": r4["out"], "start": r4["start"], "end": r4["end"],
                                                       "rows": r4["rows"], "sameRows": r4["sameRows"]}}
        common.set_now(inst(I["now"]))
    # balance off: dates of one task do not depend on unrelated tasks
    if I["dir"] == "fwd" and not I["balance"] and n >= 2:
        leaves = [i for i in numbers if not I["tasks"][i - 1]["kids"]]
        t = leaves[case["id"] % len(leaves)]
        keep = related(I, t)
        if len(keep) < n:
            w5, _, _ = build_wbs(I, keep)
            s5 = make_scheduler(I)
            o5, sc5 = guarded(lambda: s5.calc(w5))
            if o5 == "ok":
                r5 = extract(I, sc5, sorted(keep))
                case["solo"] = {"has": True, "t": t, "out": "ok", "start": r5["start"][t - 1], "end": r5["end"][t - 1]}
            else:
                case["solo"] = {"has": True, "t": t, "out": o5, "start": 0, "end": 0}
    return case


def _execute_chunk(chunk):
    common.pjplan()
    _CLOCK[0] = time.time()
    for c in chunk:
        execute(c)
    common.set_now(None)
    return chunk


def build_variant(I):
    """same ids, hierarchy and links; other estimates: what a scheduler may have seen before"""
    import copy
    J = copy.deepcopy(I)
    for t in J["tasks"]:
        if t["est"] != NOQ:
            t["est"] = q4(int(Fraction(*t["est"]) * 4) * 3 + 4)
        t["spent"] = NOQ
        t["minStart"] = MISSING
    w, _, _ = build_wbs(J)
    # ... and fewer resources: every task works for the resource of the first leaf (the judged plan then names
    # resources this scheduler has not met)
    ts = list(w.tasks)
    first = next((t.resource for t in ts if not len(t.children)), None)
    for t in ts:
        try:
            t.resource = first
        except Exception:
            pass
    return w


def related(I, t):
    """t, its ancestors, and everything its start can depend on (prerequisites with their subtrees, transitively)"""
    tasks = I["tasks"]
    n = len(tasks)
    keep = {t}
    changed = True
    while changed:
        changed = False
        for x in list(keep):
            new = set(anc_of(tasks, x))
            for a in [x] + list(anc_of(tasks, x)):
                for p in tasks[a - 1]["pre"]:
                    if p <= n:
                        new.add(p)
                        new |= desc_of(tasks, p)
            if not new <= keep:
                keep |= new
                changed = True
    return keep


def schedulable_hint(I):
    """The generator's promise that the input CAN be scheduled (ample calendars, consistent fixed dates,
    no user date in the future on any task).  TLC additionally requires ~Unschedulable."""
    for r in I["resources"]:
        if not r["ample"]:
            return False
    for t in I["tasks"]:
        if t["fend"] != MISSING and (t["fstart"] == MISSING or t["fstart"] > t["fend"] or t["fend"] > I["now"]):
            return False
    return True


# ---------------------------------------------------------------------------------------------
def small_shapes(n):
    """all parent vectors (creation order) of forests with n nodes"""
    def rec(prefix):
        i = len(prefix) + 1
        if i > n:
            yield list(prefix)
            return
        for p in range(0, i):
            yield from rec(prefix + [p])
    return list(rec([]))


def generate(tier, seed):
    rng = random.Random(seed * 1000003 + 11)
    cases = []
    cid = 0
    # systematic: every forest shape of <= 3 (quick) / 4 (thorough) tasks, both directions, a few draws each
    maxn = 3 if tier == "quick" else 4
    draws = 10 if tier == "quick" else 12
    for n in range(1, maxn + 1):
        for shape in small_shapes(n):
            for direction in ("fwd", "bwd"):
                for _ in range(draws):
                    cases.append(gen_case(rng, direction, n, cid, {"shape": shape}))
                    cid += 1
    nrand = 6000 if tier == "quick" else 60000
    for _ in range(nrand):
        direction = "fwd" if rng.random() < 0.55 else "bwd"
        n = rng.choice([2, 3, 4, 4, 5, 5, 6, 6, 7, 8] if tier == "quick" else [3, 4, 5, 6, 6, 7, 8, 9, 10])
        cases.append(gen_case(rng, direction, n, cid, {"bwdfixed": direction == "bwd" and rng.random() < 0.1}))
        cid += 1
    return cases


def strip(case):
    """drop generator-only fields before the case goes to TLC"""
    return case


def classify(case):
    I = case["I"]
    return ("links" if any(t["pre"] for t in I["tasks"]) else "nolinks",
            "shared" if len({t["res"] for t in I["tasks"]}) < len(I["tasks"]) else "own")


def run(tier, seed, log):
    t0 = time.time()
    common.pjplan()
    cases = generate(tier, seed)
    import multiprocessing as mp
    with mp.Pool(12, maxtasksperchild=1) as pool:      # a fresh process per chunk bounds leaked global state
        cases = pool.map(_execute_chunk, [cases[i:i + 50] for i in range(0, len(cases), 50)])
    cases = [c for ch in cases for c in ch]
    common.set_now(None)
    log("sched: %d calc inputs executed (%.0fs)" % (len(cases), time.time() - t0))
    jobs = 8
    per = max(100, min(2500, -(-len(cases) // jobs)))
    # a batch is one JSON document read by one TLC: bounded by number of cases AND by ledger volume
    batches, cur, weight = [], [], 0
    for c in cases:
        wgt = len(c["R"]["rows"]) + sum(len(r.get("rows", [])) for r in c.get("rep", []))
        if cur and (len(cur) >= per or weight + wgt > 60000):
            batches.append(cur)
            cur, weight = [], 0
        cur.append(c)
        weight += wgt
    if cur:
        batches.append(cur)
    # conformance with the intended design (Forward.tla) runs beside the judge: DRIFT, informational
    import threading
    box = {}
    th = threading.Thread(target=lambda: box.update(d=design_drift(cases, log, 1200 if tier == "quick" else 20000)))
    th.start()
    th2 = threading.Thread(target=lambda: box.update(mc=design_model_check(tier, log)))
    th2.start()
    j = tlc.judge_batches("SchedTrace", {}, batches, "sch", jobs=jobs)
    th.join()
    th2.join()
    if box.get("mc", {}).get("error"):
        raise tlc.TlcError("MC_Forward: the intended design violates %s" % box["mc"]["error"])
    byid = {c["id"]: c for c in cases}
    fails = []
    seen = set()
    for t in j["fails_full"]:
        cid, clause, detail = t[1], t[2], t[3]
        if (cid, clause) in seen:
            continue
        seen.add((cid, clause))
        c = byid[cid]
        fails.append({"property": clause.split(".")[0], "engine": "sched", "clause": clause, "detail": detail,
                      "kind": c["I"]["dir"], "tags": tags_of(c, clause, detail),
                      "case": {"id": cid, "I": c["I"]},
                      "text": "%s calc, %d tasks, detail=%s" % (c["I"]["dir"], len(c["I"]["tasks"]), detail)})
    drift = box.get("d", {"replayed": 0})
    nontriv = sum(1 for c in cases if len(c["I"]["tasks"]) >= 2 and
                  (classify(c)[0] == "links" or classify(c)[1] == "shared"))
    outs = {}
    for c in cases:
        outs[c["R"]["out"]] = outs.get(c["R"]["out"], 0) + 1
    cov = {"cases": len(cases), "nontrivial": nontriv, "judge_states": j["states"], "outcomes": outs,
           "rows": sum(len(c["R"]["rows"]) for c in cases),
           "fwd": sum(1 for c in cases if c["I"]["dir"] == "fwd"),
           "bwd": sum(1 for c in cases if c["I"]["dir"] == "bwd"),
           "samples": [{"I": c["I"], "R": c["R"]} for c in cases[200:202]], "drift": drift, "mc": box.get("mc")}
    log("sched: judged %d executions, %d failing (case, clause) pairs (%.0fs)" % (j["judged"], len(fails),
                                                                                time.time() - t0))
    return {"engine": "sched", "tier": tier, "seed": seed, "wall_s": time.time() - t0, "fails": fails,
            "coverage": cov}


def design_model_check(tier, log):
    """TLC model-checks the intended forward design (MC_Forward): termination, determinism, every forward
    clause of Sched.tla on every terminal state, over a bounded family of inputs"""
    NOI = [0, 0]
    if tier == "quick":
        lits = {"N": 2, "MAXLINKS": 1, "DEAD": False, "HORIZON": 30, "FREERES": True}
        defs = {"ESTS": [NOI, [2, 1], [10, 1]], "DEFESTS": [[2, 1]]}
    else:
        lits = {"N": 3, "MAXLINKS": 2, "DEAD": False, "HORIZON": 30, "FREERES": False}
        defs = {"ESTS": [NOI, [0, 1], [10, 1]], "DEFESTS": [[0, 1]]}
    defs = {k: set(tuple(x) for x in v) for k, v in defs.items()}
    r = tlc.run_model("MC_Forward", lits, {k: _SetOfTuples(v) for k, v in defs.items()}, "mcfwd",
                      invariants=["OkMeansClauses", "OkMeansSchedulable", "FailHasReason", "Dated"],
                      properties=["Terminates"], workers=8, timeout=3000, heap="4g")
    if not r["ok"]:
        return {"error": "%s\n%s" % (tlc.violated(r["out"]), r["out"][-1500:])}
    log("MC_Forward N=%d: %d states, %d transitions: terminates, deterministic, all forward clauses hold (%.0fs)"
        % (lits["N"], r["stats"]["distinct"], r["stats"]["generated"], r["wall"]))
    dead = tlc.run_model("MC_Forward", dict(lits, DEAD=True, N=2, MAXLINKS=1, FREERES=True),
                         {k: _SetOfTuples(v) for k, v in defs.items()}, "mcfwd",
                         invariants=["OkMeansClauses", "OkMeansSchedulable", "FailHasReason", "Dated"],
                         properties=["Terminates"], workers=8, timeout=3000, heap="4g") if tier != "quick" else None
    if dead is not None and not dead["ok"]:
        return {"error": "DEAD: %s\n%s" % (tlc.violated(dead["out"]), dead["out"][-1500:])}
    blits = {k: v for k, v in lits.items() if k != "DEAD"}
    blits["HORIZON"] = 40
    b = tlc.run_model("MC_Backward", blits, {k: _SetOfTuples(v) for k, v in defs.items()}, "mcbwd",
                      invariants=["OkMeansClauses", "FailHasReason", "Dated"], properties=["Terminates"],
                      workers=8, timeout=3000, heap="4g")
    if not b["ok"]:
        return {"error": "MC_Backward %s\n%s" % (tlc.violated(b["out"]), b["out"][-1500:])}
    log("MC_Backward N=%d: %d states, %d transitions: terminates, deterministic, all backward clauses hold (%.0fs)"
        % (lits["N"], b["stats"]["distinct"], b["stats"]["generated"], b["wall"]))
    return {"states": r["stats"]["distinct"] + b["stats"]["distinct"],
            "transitions": r["stats"]["generated"] + b["stats"]["generated"], "n": lits["N"],
            "forward": r["stats"], "backward": b["stats"]}


class _SetOfTuples:
    def __init__(self, s):
        self.s = s


def design_drift(cases, log, limit):
    import threading
    out = {}
    ths = [threading.Thread(target=lambda d=d, m=m: out.update({d: _design_drift(cases, log, limit, d, m)}))
           for d, m in (("fwd", "ForwardTrace"), ("bwd", "BackwardTrace"))]
    for t in ths:
        t.start()
    for t in ths:
        t.join()
    return out


def _design_drift(cases, log, limit, direction, module):
    """replay the recorded executions against the machine of Forward.tla / Backward.tla (row by row)"""
    fwd = [{"id": c["id"], "I": c["I"], "R": {"out": c["R"]["out"], "start": c["R"]["start"], "end": c["R"]["end"],
                                              "rows": c["R"]["rows"]}}
           for c in cases if c["I"]["dir"] == direction and c["R"]["out"] in ("ok", "RuntimeError")
           and not c["R"]["overflow"] and not c["I"].get("tod") and not c["I"].get("noise") and not (direction == "bwd" and any(t["fstart"] != MISSING for t in c["I"]["tasks"]))]
    fwd = fwd[:limit]
    if not fwd:
        return {"replayed": 0}
    jobs = 4
    per = max(50, min(1500, -(-len(fwd) // jobs)))
    batches = [fwd[i:i + per] for i in range(0, len(fwd), per)]
    wd, mod = tlc.prepare_judge(module, {"HORIZON": 70}, "fwt")
    import shutil
    from concurrent.futures import ThreadPoolExecutor
    kinds, states, ex = {}, 0, []
    try:
        def one(i):
            import json, os
            bdir = os.path.join(wd, "b%d" % i)
            os.makedirs(bdir)
            tf = os.path.join(bdir, "trace.json")
            with open(tf, "w") as fh:
                json.dump(batches[i], fh, separators=(",", ":"))
            for f in os.listdir(wd):
                if f.endswith((".tla", ".cfg")):
                    os.symlink(os.path.join(wd, f), os.path.join(bdir, f))
            out, wall, rc = tlc.run_tlc(bdir, mod, mod + ".cfg", env={"TRACE_FILE": tf}, workers=1, timeout=1800,
                                        heap="1g")
            return out, rc
        with ThreadPoolExecutor(max_workers=jobs) as pool:
            res = list(pool.map(one, range(len(batches))))
        for out, rc in res:
            if rc != 0 or not list(tlc.tuples(out, "JUDGED")):
                log("design replay: TLC did not finish a batch (informational run, ignored)")
                return {"replayed": 0, "error": out[-400:]}
            st = tlc.parse_stats(out)
            states += st["distinct"] if st else 0
            for t in tlc.tuples(out, "DRIFT"):
                what = t[2] if isinstance(t[2], str) else t[2][0]
                kinds[what] = kinds.get(what, 0) + 1
                if len(ex) < 5:
                    ex.append({"case": t[1], "what": t[2]})
    finally:
        shutil.rmtree(wd, ignore_errors=True)
    log("design replay (%s): %d %s executions replayed step by step, %d machine states, drift %s"
        % (module, len(fwd), direction, states, kinds or "none"))
    return {"replayed": len(fwd), "machine_states": states, "drift": kinds, "examples": ex}


def tags_of(case, clause, detail):
    return []


def replay(case, log):
    c = {"id": case["case"]["id"], "I": case["case"]["I"]}
    common.pjplan()
    execute(c)
    common.set_now(None)
    j = tlc.judge_batches("SchedTrace", {}, [[c]], "schrp", jobs=1)
    log("replayed %s calc with %d tasks: out=%s" % (c["I"]["dir"], len(c["I"]["tasks"]), c["R"]["out"]))
    return sorted(set(t[2] for t in j["fails_full"]))


CLAUSES = {
    "C02": "C02.notbefore (start day and every reserved day >= day of project start, clock, min_start and every "
           "own/inherited prerequisite leaf's end), C02.milestone",
    "C03": "C03.row, C03.capacity (per resource-day, per task when balancing is off), C03.reserved, C03.filter, "
           "C03.resources, C03.calendar (the result's resources answer exactly the calendar expression)",
    "C04": "C04.work, C04.dates, C04.norows, C04.fixed",
    "C06": "C06.pure, C06.separate, C06.struct, C06.dated, C06.repeat (same and fresh scheduler), C06.clock, "
           "C06.returns",
    "C07": "C07.order, C07.rollup, C07.wbs",
    "C08": "C08.tight, C08.encoding, C08.wbsorder, C08.solo",
    "C09": "C09.deadline, C09.dependency (task and leaf level, own and inherited), C09.latepacked, C09.encoding",
    "C14": "C14.outcome (ok or RuntimeError, never RecursionError/other/timeout), C14.diagnosis",
}


def evidence(prop, res):
    cov = res["coverage"]
    coverage = {
        "states": cov["judge_states"] + ((cov.get("mc") or {}).get("states") or 0),
        "transitions": cov["judge_states"] + ((cov.get("mc") or {}).get("transitions") or 0),
        "traces_validated_against_impl": cov["cases"],
        "evaluations": cov["cases"], "distinct_nontrivial": cov["nontrivial"],
        "design_model": {"module": "spec/MC_Forward.tla (Forward.tla), spec/MC_Backward.tla (Backward.tla)", "result": cov.get("mc"),
                         "checked": "termination (liveness under WF), at most one successor per state, "
                                    "out=ok => every forward clause of Sched.tla, out=ok => schedulable, "
                                    "out=fail => a reason exists"},
        "rule": "every ordered forest shape of <= 3 (quick) / 4 (thorough) tasks with seeded link placements, "
                "attributes, resources and calendars, both schedulers, plus seeded random inputs of up to 8-10 "
                "tasks; non-trivial = at least 2 tasks and (a dependency link or a shared resource); inputs are "
                "distinct draws of a seeded generator",
        "samples": cov["samples"][:2], "exhaustive": False, "outcomes": cov["outcomes"],
        "ledger_rows_replayed": cov["rows"], "forward": cov["fwd"], "backward": cov["bwd"],
        "design_conformance": cov.get("drift"),
        "clauses": CLAUSES[prop],
        "checker_cmd": "tlc SchedTrace.tla (clauses of Sched.tla on every recorded calc execution)",
    }
    assumptions = ["TLC, the input builder (public API only) and the date/amount conversion are trusted",
                   "amounts are multiples of 1/4 and capacities chosen so that every encoded date is a whole minute",
                   "calendars are day-granular; the capacity oracle is Calendar.tla's Eval (bound by C17)",
                   "the clock is frozen by replacing datetime.datetime before pjplan is imported"]
    return {"level": "model_checking", "coverage": coverage, "assumptions": assumptions}
