"""Engine `render` (C19 renderings, C20 printed sheets) against spec/Render.tla.

Dated WBSs (any hierarchy and links, milestones, sections, style attributes, adversarial single-line
names) are built through the public API and rendered with MermaidGantt, MermaidNetwork,
DhtmlxGantt, repr()/print() of WBS, tasks and task lists, and the usage report.  The harness decodes
each document into entries, using the known pool strings as anchors (it never guesses structure from
the expected result), and TLC compares the entries with the abstract documents of Render.tla.
"""
import contextlib
import datetime as _dt
import html
import io
import json
import random
import re
import time

from . import common, tlc
from . import eng_sched as es
from . import eng_calendar as cal

PROPS = ["C19", "C20"]
# single-line names: quotes, braces, angle brackets, '$', ':', non-ASCII
NAMES = [None, "plain", 'say "hi"', "a: b", "{{x}} {y}", "<b>bold</b> & </div>", "$src $$ ${x}", "ünï©ødé 日本",
         "x --> 9{{y}}", "id_7, 01.01.2024 00:00", "section S", "tail  ", "</script><script>", "semi;colon, comma",
         "A" * 40, "B" * 90]
SECTIONS = [None, "Alpha", "Beta: x", "Гамма"]
ANSI = re.compile(r"\x1b\[[0-9;:]*m")


def gen_world(rng, n, for_sheet):
    tasks, roots = es.gen_structure(rng, n)
    ids = rng.sample(range(1, 4 * n + 3), n)
    if rng.random() < 0.3:
        ids = [i + 1000 if i > 0 else i for i in ids]        # large numbers: equal ids are not the same int object
    W = {"ids": ids, "par": [t["par"] for t in tasks], "kids": [t["kids"] for t in tasks], "roots": roots,
         "pre": [[] for _ in tasks], "ext": [[] for _ in tasks], "name": [], "ms": [], "start": [], "end": [],
         "sec": []}
    for _ in range(rng.choice([0, 1, 2, 3, 4])):
        s, p = rng.randint(1, n), rng.randint(1, n)
        if es.legal_link(tasks, s, p) and p not in tasks[s - 1]["pre"]:
            tasks[s - 1]["pre"].append(p)
            W["pre"][s - 1].append(p)
    nsec = rng.choice([0, 0, 1, 2, 3])
    base = 20000 * 1440 + rng.randint(0, 300) * 1440
    for i in range(n):
        lo = 1 if not for_sheet else 0
        W["name"].append(rng.randint(lo, len(NAMES) - 1) if rng.random() < 0.85 else lo)
        W["ms"].append(rng.random() < 0.2)
        st = base + rng.randint(0, 20) * 1440 + rng.choice([0, 0, 540, 615, 1439])
        W["start"].append(st)
        # (a task flagged as milestone need not have zero duration: a summary keeps its span whatever its flag says)
        W["end"].append(st if W["ms"][-1] and rng.random() < 0.6 else st + rng.choice([0, 45, 1440, 3 * 1440 + 60]))
        W["sec"].append(0 if nsec == 0 or rng.random() < 0.3 else rng.randint(1, nsec))
    if rng.random() < 0.4:
        i = rng.randrange(n)
        W["ext"][i] = [900 + rng.randint(0, 5)]
        if W["pre"][i] and rng.random() < 0.4 and not for_sheet:
            # an outside predecessor whose id equals the id of an inside predecessor of the same task
            # (even number: a member of another WBS; an odd one would be free-standing - both are fine)
            W["ext"][i] = [ids[W["pre"][i][0] - 1]]
    # sheets only: some top-level subtrees live in a SECOND WBS (home 2), so that lists of linked tasks mix
    # rows of two WBSs and links leave the WBS in both directions
    W["home"] = [1] * n
    if for_sheet and len(roots) >= 2 and rng.random() < 0.5:
        W["ext"] = [[] for _ in tasks]
        for r in roots[rng.randint(0, 1):]:
            if rng.random() < 0.6:
                for t in range(1, n + 1):
                    if _under(W, t, r):
                        W["home"][t - 1] = 2
        # ids are unique within a WBS only: tasks of the second WBS may carry ids of the first
        free = [W["ids"][t] for t in range(n) if W["home"][t] == 1]
        rng.shuffle(free)
        for t in range(n):
            if W["home"][t] == 2 and free and rng.random() < 0.7:
                W["ids"][t] = free.pop()
        for _ in range(6):          # links that cross the two WBSs, in both directions
            s, p = rng.randint(1, n), rng.randint(1, n)
            if (W["home"][s - 1] != W["home"][p - 1] and es.legal_link(tasks, s, p)
                    and p not in tasks[s - 1]["pre"]):
                tasks[s - 1]["pre"].append(p)
                W["pre"][s - 1].append(p)
    return W


def inst(m):
    return common.FakeDT(1970, 1, 1) + _dt.timedelta(minutes=m)


def mins(dt):
    d = dt - _dt.datetime(1970, 1, 1)
    return d.days * 1440 + d.seconds // 60


def build(W, hook=None):
    pj = common.pjplan()
    objs = []
    for i in range(len(W["ids"])):
        kw = {}
        if W["sec"][i]:
            kw["gantt_section"] = SECTIONS[W["sec"][i]]
        if i % 3 == 0:
            kw["gantt_bar_style"] = {"fill": "#ff0000", "progress": {"fill": "#00ff00"}}
            kw["network_bar_style"] = {"fill": "#eee", "stroke": "#333"}
        if i % 4 == 1:
            kw["gantt_text_style"] = {"fill": "white"}
        if i % 5 == 2:
            # custom attributes that are called like fields of the renderers' own entries
            kw.update(progress=25, text="junk", type="project", open="no", start_date="x", css_class="y")
        objs.append(pj.Task(W["ids"][i], name=NAMES[W["name"][i]], start=inst(W["start"][i]), end=inst(W["end"][i]),
                            milestone=W["ms"][i], estimate=(0, 8, 2.5, 16)[i % 4], spent=(0, 3, 9, None)[i % 4],
                            resource=("ann", None, "bob")[i % 3], **kw))
    w = pj.WBS()

    def attach(lst, numbers):
        for c in numbers:
            lst.append(objs[c - 1])
            attach(objs[c - 1].children, W["kids"][c - 1])

    # the last root (with its subtree and the links that touch it) arrives only after `hook` has run:
    # objects created by the hook (renderer views) live across a structural edit of the WBS
    late = W["roots"][-1] if hook is not None and len(W["roots"]) >= 2 else None
    home = W.get("home") or [1] * len(objs)
    other = pj.WBS()
    attach(w.roots, [r for r in W["roots"] if r != late and home[r - 1] == 1])
    attach(other.roots, [r for r in W["roots"] if r != late and home[r - 1] == 2])
    doomed = []

    def link(only_late):
        for i, pre in enumerate(W["pre"]):
            involved = late is not None and (_under(W, i + 1, late) or any(_under(W, p, late) for p in pre))
            if involved != only_late:
                continue
            ps = [objs[p - 1] for p in pre]
            for x in W["ext"][i]:
                if x % 3 == 0 and x not in W["ids"]:
                    # a descendant of a subtree of THIS wbs that is removed afterwards
                    top = w // pj.Task(5000 + x, name="gone")
                    ps.append(top // pj.Task(x, name="outside"))
                    doomed.append(top)
                else:
                    # a task of another WBS, or (odd ids) a free-standing task that belongs to no WBS at all
                    ps.append(pj.Task(x, name="outside") if x % 2 else other // pj.Task(x, name="outside"))
            if ps:
                objs[i].predecessors = ps

    link(False)
    for top in doomed:
        w.remove(top)
    out = hook(w) if hook is not None else None
    n0 = len(doomed)
    if late is not None:
        attach(w.roots, [late])
        link(True)
    for top in doomed[n0:]:
        w.remove(top)
    if hook is not None:
        return w, objs, out
    if any(h == 2 for h in home):
        return w, objs, other
    return w, objs


def _under(W, t, top):
    while t:
        if t == top:
            return True
        t = W["par"][t - 1]
    return False


def region(text, start_marker, end_marker):
    a = text.find(start_marker)
    b = text.rfind(end_marker)
    if a < 0 or b < 0 or b < a:
        return None
    return text[a + len(start_marker):b]


def iframe_ok(obj):
    r = obj._repr_html_()
    m = re.match(r'^<iframe srcdoc="(.*)" width="100%" height="', r, re.S)
    return bool(m) and '"' not in m.group(1) and html.unescape(m.group(1)) == obj.to_html()


GANTT_LINE = re.compile(r"^    (.*): (milestone,|done,|active,|) id_(-?\d+), (\d\d\.\d\d\.\d{4} \d\d:\d\d), (\d\d\.\d\d\.\d{4} \d\d:\d\d)$")


def junk(kind="junk"):
    return {"kind": kind, "id": 0, "name": -1, "ms": False, "start": 0, "end": 0, "sec": -1}


def decode_gantt(text):
    src = region(text, '<div class="mermaid">\n', '</div>\n\n<script src=')
    if src is None:
        return [junk()]
    lines = src.split("\n")
    doc = []
    gsan = {("" if s is None else s.replace(":", "")): i for i, s in enumerate(NAMES) if s is not None}
    for ln in lines:
        if ln in ("gantt", "  dateFormat DD.MM.YYYY HH:mm", "  excludes weekends", "") or ln.startswith("  title ") \
                or ln.startswith("  tickInterval "):
            continue
        if ln.startswith("  section "):
            s = ln[len("  section "):]
            doc.append({"kind": "section", "id": 0, "name": 0, "ms": False, "start": 0, "end": 0,
                        "sec": 0 if s == "-" else (SECTIONS.index(s) if s in SECTIONS else -1)})
            continue
        m = GANTT_LINE.match(ln)
        if not m:
            doc.append(junk())
            continue
        fmt = "%d.%m.%Y %H:%M"
        doc.append({"kind": "task", "id": int(m.group(3)), "name": gsan.get(m.group(1), -1),
                    "ms": m.group(2) == "milestone,", "start": mins(_dt.datetime.strptime(m.group(4), fmt)),
                    "end": mins(_dt.datetime.strptime(m.group(5), fmt)), "sec": 0})
    return doc


def decode_network(text, ids):
    src = region(text, '<div class="mermaid">\n', '</div>\n\n<script src=')
    if src is None:
        return [{"kind": "junk", "src": 0, "srcStart": False, "srcName": -1, "dst": 0, "dstName": -1}]
    nsan = [(i, s.replace('"', "")) for i, s in enumerate(NAMES) if s is not None] + [(-7, "outside")]
    doc = []
    for ln in src.split("\n"):
        if ln in ("flowchart LR", "") or ln.startswith("style "):
            continue
        found = None
        heads = [("  0((Start)) --> ", 0, True, 0)]
        for a in ids:
            for (ni, ns) in nsan:
                heads.append(("  %s{{%s}} --> " % (a, ns), a, False, ni))
        for (h, a, st, ni) in heads:
            if not ln.startswith(h):
                continue
            rest = ln[len(h):]
            for b in ids:
                for (mi, ms) in nsan:
                    if rest == "%s{{%s}}" % (b, ms):
                        found = {"kind": "edge", "src": a, "srcStart": st, "srcName": ni, "dst": b, "dstName": mi}
        doc.append(found or {"kind": "junk", "src": 0, "srcStart": False, "srcName": -1, "dst": 0, "dstName": -1})
    return doc


def decode_dhtmlx(text):
    blob = region(text, "gantt.parse(", ");\n\n</script>")
    out = {"jsonok": False, "data": [], "links": [], "linkids": [], "progress": True}
    try:
        d = json.loads(blob)
    except Exception:
        return out
    if not isinstance(d, dict) or not isinstance(d.get("data"), list) or not isinstance(d.get("links"), list):
        return out
    out["jsonok"] = True
    fmt = "%d-%m-%Y %H:%M"
    for x in d["data"]:
        try:
            out["data"].append({"id": x["id"], "name": NAMES.index(x["text"]) if x["text"] in NAMES else -1,
                                "ms": x["type"] == "milestone", "start": mins(_dt.datetime.strptime(x["start_date"], fmt)),
                                "end": mins(_dt.datetime.strptime(x["end_date"], fmt)), "parent": x["parent"]})
            p = x["progress"]
            if not (isinstance(p, (int, float)) and 0 <= p <= 1):
                out["progress"] = False
        except Exception:
            out["data"].append({"id": -1, "name": -1, "ms": False, "start": 0, "end": 0, "parent": -1})
    for x in d["links"]:
        out["links"].append([x.get("source"), x.get("target")])
        out["linkids"].append(x.get("id") if isinstance(x.get("id"), int) else -1)
    return out


def render_events(rng, eid, W):
    pj = common.pjplan()
    cols = [pj.DhtmlxGanttColumn("name", 200, "Task", True), pj.DhtmlxGanttColumn("start", 80)]
    gopts = dict(title=rng.choice([None, "Plan: $x"]), weekends=rng.random() < 0.5, tick_interval=rng.choice([None, "1day"]))
    dopts = dict(columns=rng.choice([None, cols]), scale=rng.choice(["day", "month", "year", "x"]))
    early = rng.random() < 0.5          # views created before the last root arrives (kept across an edit)
    mk = lambda w: {"gantt": pj.MermaidGantt(w, **gopts), "network": pj.MermaidNetwork(w), "dhtmlx": pj.DhtmlxGantt(w, **dopts)}
    if early:
        w, objs, views = build(W, mk)
    else:
        w, objs = build(W)
        views = mk(w)
    evs = []
    common.set_now(inst(W["start"][0] + rng.choice([-10 ** 6, 0, 720, 10 ** 6])))
    if rng.random() < 0.3:
        # the view objects have shown the plan once while its dates and names were different; they show what the
        # plan says NOW
        shift = _dt.timedelta(minutes=90)
        keep = [(o.start, o.end, o.name) for o in objs]
        try:
            for o in objs:
                o.start, o.end, o.name = o.start - shift, o.end - shift, "earlier"
            for v in views.values():
                v.to_html()
        except Exception:
            pass
        for o, (s0, e0, n0) in zip(objs, keep):
            o.start, o.end, o.name = s0, e0, n0
    base = {"W": W, "prop": "19", "doc": [], "iframe": True, "jsonok": True, "data": [], "links": [], "linkids": [],
            "progress": True}
    for kind in ("gantt", "network", "dhtmlx"):
        ev = dict(base, id=eid + len(evs), kind=kind, out="ok")
        try:
            g = views[kind]
            if kind == "gantt":
                ev["doc"] = decode_gantt(g.to_html())
            elif kind == "network":
                ev["doc"] = decode_network(g.to_html(), W["ids"] + [x for l in W["ext"] for x in l])
            else:
                ev.update(decode_dhtmlx(g.to_html()))
            ev["iframe"] = iframe_ok(g)
        except RecursionError:
            ev["out"] = "RecursionError"
        except Exception as x:
            ev["out"] = "%s: %s" % (type(x).__name__, str(x)[:60])
        evs.append(ev)
    common.set_now(None)
    return evs


# ---------------------------------------------------------------------------------------------
# sheets
# ---------------------------------------------------------------------------------------------
DEFAULT_FIELDS = ["id", "name", "resource", "estimate", "spent", "start", "end", "predecessors"]
FIELD_SETS = [None, ["id", "name"], ["name", "id", "parent", "predecessors"], ["id", "zz", "name", "successors"],
              ["ID", "Name", "Estimate"], ["id", "name", "predecessors", "qq", "parent", "resource", "milestone"],
              # names that are members of Task but no stored attributes are unknown fields like any other
              ["id", "wbs", "name", "children"], ["id", "name", "all_children", "clone", "successors"],
              ["id", "to_dict", "Children", "name", "all_parents", "predecessors"], ["id", "successors", "predecessors"],
              ["id", "name", "estimate", "predecessors", "id"]]           # a field named twice is two columns
THEMES = [None, {"header_color": "92m", "level_colors": ["94m"]}, {"level_colors": []},
          {"header_color": None, "level_colors": [None, "94m", None]}]        # None: that cell is not coloured
# a print call that is refused (theme without level colours) or one that succeeds, made BEFORE the judged one:
# what a sheet looks like must not depend on earlier calls
PRELUDES = [None, None, "refused", "other"]
MEMBER_FIELDS = ("wbs", "children", "all_children", "clone", "to_dict", "Children", "all_parents")


def decode_sheet(text, fields):
    plain = ANSI.sub("", text)
    lines = plain.split("\n")
    out = {"nlines": len(lines), "widths": [len(l) for l in lines], "header": True, "rows": []}
    header = lines[0]
    starts = []
    pos = 0
    for f in fields:
        j = header.find(f.upper(), pos)
        if j < 0:
            out["header"] = False
            return out
        starts.append(j)
        pos = j + len(f)
    ends = starts[1:] + [None]
    low = list(fields)          # only the documented lower-case field names are interpreted
    for ln in lines[1:]:
        cells = [ln[a:b] for a, b in zip(starts, ends)]
        fits = all(b is None or (b - 1 < len(ln) and ln[b - 1] == " " and ln[b - 2] == " ") for b in ends)
        x = {"hasid": "id" in low, "id": -1, "hasname": "name" in low, "indent": -1, "name": -1,
             "haspre": "predecessors" in low, "pre": [], "haspar": "parent" in low, "par": -1,
             "hassuc": "successors" in low, "suc": [],
             "unknownempty": True, "fits": fits, "blank": False}
        for f, c in zip(low, cells):
            v = c.rstrip()
            if f == "id":
                x["id"] = int(v) if re.fullmatch(r"-?\d+", v) else -1
            elif f == "name":
                body = v.lstrip(" ")
                x["indent"] = len(v) - len(body)
                cands = [i for i, s in enumerate(NAMES) if (s or "").rstrip() == body]
                x["name"] = cands[0] if cands else -1
                x["blank"] = body == ""          # the indentation of an empty name cannot be seen
            elif f in ("predecessors", "successors"):
                cell = x["pre" if f == "predecessors" else "suc"]
                m = re.fullmatch(r"\[(.*)\]", v)
                if not m:
                    cell.append({"id": -1, "external": False})
                elif m.group(1):
                    for tok in m.group(1).split(","):
                        mm = re.fullmatch(r"(-?\d+)(\(external\))?", tok)
                        cell.append({"id": int(mm.group(1)), "external": bool(mm.group(2))} if mm
                                    else {"id": -1, "external": False})
            elif f == "parent":
                x["par"] = 0 if v == "" else (int(v) if re.fullmatch(r"-?\d+", v) else -1)
            elif f in ("zz", "qq") or f in MEMBER_FIELDS:
                x["unknownempty"] = x["unknownempty"] and v == ""
        out["rows"].append(x)
    return out


def sheet_events(rng, eid, W):
    pj = common.pjplan()
    built = build(W)
    w, objs = built[0], built[1]
    other = built[2] if len(built) > 2 else None
    home = W["home"]
    n = len(objs)
    fields = rng.choice(FIELD_SETS)
    children = rng.random() < 0.7
    theme = rng.choice(THEMES)
    how = rng.choice(["wbs", "task", "list", "repr_wbs", "repr_task", "tasks"] +
                     (["other", "preds", "succs", "preds", "succs"] if other is not None else ["preds", "succs"]))
    ev = {"id": eid, "kind": "sheet", "prop": "20", "W": W, "out": "ok", "roots": [], "children": children,
          "nlines": 0, "widths": [], "header": True, "rows": []}
    prelude = rng.choice(PRELUDES)
    if prelude is not None:
        try:
            with contextlib.redirect_stdout(io.StringIO()):
                if prelude == "refused":
                    w.print(fields, True, {"header_color": "91m"})
                else:
                    objs[rng.randrange(n)].print(fields, True, theme)
        except Exception:
            pass
    buf = io.StringIO()
    try:
        with contextlib.redirect_stdout(buf):
            if how == "wbs" and rng.random() < 0.2:
                # no arguments at all: the default fields, children shown
                (w.print if rng.random() < 0.5 else w.roots.print)()
                fields, ev["children"] = None, True
                ev["roots"] = [r for r in W["roots"] if home[r - 1] == 1]
            elif how == "task" and rng.random() < 0.2:
                t = rng.randint(1, n)
                objs[t - 1].print()
                fields, ev["children"], ev["roots"] = None, True, [t]
            elif how == "wbs":
                w.print(fields, children, theme)
                ev["roots"] = [r for r in W["roots"] if home[r - 1] == 1]
            elif how == "other":
                other.print(fields, children, theme)
                ev["roots"] = [r for r in W["roots"] if home[r - 1] == 2]
            elif how in ("preds", "succs"):
                # the list of a task's predecessors / successors: its rows may belong to different WBSs
                cand = [t for t in range(1, n + 1) if not W["ext"][t - 1]]
                linked = (lambda t: W["pre"][t - 1]) if how == "preds" else \
                    (lambda t: [s_ for s_ in range(1, n + 1) if t in W["pre"][s_ - 1]])
                mixed = [t for t in cand if len({home[x - 1] for x in linked(t)}) > 1]
                t = rng.choice(mixed or cand) if cand else 0
                if how == "preds" and t:
                    objs[t - 1].predecessors.print(fields, False, theme)
                    ev["roots"] = list(W["pre"][t - 1])
                elif t:
                    objs[t - 1].successors.print(fields, False, theme)
                    ev["roots"] = [s_ for s_ in range(1, n + 1) if t in W["pre"][s_ - 1]]
                else:
                    w.print(fields, children, theme)
                    ev["roots"] = [r for r in W["roots"] if home[r - 1] == 1]
                if t:
                    ev["children"] = False
            elif how == "task":
                t = rng.randint(1, n)
                objs[t - 1].print(fields, children, theme)
                ev["roots"] = [t]
            elif how == "list":
                t = rng.randint(1, n)
                objs[t - 1].children.print(fields, children, theme)
                ev["roots"] = W["kids"][t - 1]
            elif how == "tasks":
                # every task listed flat: children switched off so that each task appears once
                w.tasks.print(fields, False, theme)
                ev["roots"] = [t for t in range(1, n + 1) if home[t - 1] == 1]
                ev["children"] = False
            elif how == "repr_wbs":
                print(repr(w))
                fields, ev["children"], ev["roots"] = None, True, [r for r in W["roots"] if home[r - 1] == 1]
            else:
                t = rng.randint(1, n)
                print(repr(objs[t - 1]))
                fields, ev["children"], ev["roots"] = None, True, [t]
        text = buf.getvalue()
        if text.endswith("\n"):
            text = text[:-1]
        ev.update(decode_sheet(text, fields or DEFAULT_FIELDS))
    except RecursionError:
        ev["out"] = "RecursionError"
    except Exception as x:
        ev["out"] = "%s: %s" % (type(x).__name__, str(x)[:60])
    return [ev]


_USAGE_OFF = [False]


def usage_event(rng, eid):
    """usage table of a real forward schedule: one line per day between first and last reservation"""
    pj = common.pjplan()
    I = es.gen_case(rng, "fwd", rng.choice([1, 2, 3, 4]), eid, {"never": False})["I"]
    ev = {"id": eid, "kind": "usage", "prop": "20", "W": {"ids": []}, "out": "ok", "nlines": 0, "widths": [],
          "first": 0, "last": 0}
    try:
        common.set_now(es.inst(I["now"]))
        if _USAGE_OFF[0]:
            common.set_now(None)
            return []
        w, _, _ = es.build_wbs(I)
        o, sc = es.guarded(lambda: es.make_scheduler(I).calc(w), 8.0)
        if o == "timeout":
            _USAGE_OFF[0] = True         # a scheduler that does not end is C14's business: no further usage tables
        if o != "ok":
            common.set_now(None)
            return []
        rows = sc.resource_usage.rows()
        if not rows:
            common.set_now(None)
            return []
        days = [es.tmin(r.date)[0] // 1440 for r in rows]
        ev["first"], ev["last"] = min(days), max(days)
        o, raw = es.guarded(lambda: repr(sc.resource_usage), 8.0)
        if o == "RuntimeError":
            common.set_now(None)
            return []
        if o != "ok":                       # another exception class, or the table is never finished
            if o == "timeout":
                _USAGE_OFF[0] = True        # one such report is enough: no further usage tables in this run
            ev["out"] = "usage table: %s" % o
            common.set_now(None)
            return [ev]
        text = ANSI.sub("", raw)
        lines = text.split("\n")
        ev["nlines"] = len(lines)
        ev["widths"] = [len(l) for l in lines]
    except RuntimeError:
        common.set_now(None)
        return []
    except Exception as x:
        ev["out"] = "%s: %s" % (type(x).__name__, str(x)[:60])
    common.set_now(None)
    return [ev]


def run(tier, seed, log):
    t0 = time.time()
    common.pjplan()
    rng = random.Random(seed * 101 + 9)
    events = []
    n = 1500 if tier == "quick" else 20000
    for _ in range(n):
        W = gen_world(rng, rng.choice([1, 2, 3, 4, 5, 6]), False)
        events.extend(render_events(rng, len(events), W))
    for _ in range(n * 2):
        W = gen_world(rng, rng.choice([1, 2, 3, 4, 5, 6]), True)
        events.extend(sheet_events(rng, len(events), W))
    for _ in range(n // 3):
        events.extend(usage_event(rng, len(events)))
    for i, e in enumerate(events):
        e["id"] = i
    log("render: %d documents produced and decoded (%.0fs)" % (len(events), time.time() - t0))
    jobs = 8
    per = max(200, min(4000, -(-len(events) // jobs)))
    j = tlc.judge_batches("RenderTrace", {}, [events[i:i + per] for i in range(0, len(events), per)], "rnd", jobs=jobs)
    fails = []
    seen = set()
    for t in j["fails_full"]:
        e = events[t[1]]
        if (t[1], t[2]) in seen:
            continue
        seen.add((t[1], t[2]))
        fails.append({"property": t[2].split(".")[0], "engine": "render", "clause": t[2], "kind": e["kind"], "tags": [],
                      "case": {"kind": e["kind"], "W": e["W"]}, "text": "%s: %s" % (e["kind"], str(t[3])[:100])})
    kinds = {}
    for e in events:
        kinds[e["kind"]] = kinds.get(e["kind"], 0) + 1
    cov = {"events": len(events), "kinds": kinds, "judge_states": j["states"],
           "nontrivial19": sum(1 for e in events if e["prop"] == "19" and len(e["W"]["ids"]) >= 2),
           "nontrivial20": sum(1 for e in events if e["prop"] == "20" and (e["kind"] == "usage" or len(e["W"]["ids"]) >= 2)),
           "samples19": [{"kind": e["kind"], "W": e["W"], "doc": e.get("doc")} for e in events[6:8]],
           "samples20": [{"kind": e["kind"], "roots": e.get("roots"), "rows": e.get("rows")} for e in events[-600:-598]]}
    return {"engine": "render", "tier": tier, "seed": seed, "wall_s": time.time() - t0, "fails": fails, "coverage": cov}


def replay(case, log):
    common.pjplan()
    rng = random.Random(1)
    W = case["case"]["W"]
    if case["case"]["kind"] in ("gantt", "network", "dhtmlx"):
        evs = render_events(rng, 0, W)
    elif case["case"]["kind"] == "sheet":
        evs = []
        for i in range(40):
            evs.extend(sheet_events(rng, i, W))
    else:
        evs = []
    for i, e in enumerate(evs):
        e["id"] = i
    if not evs:
        return []
    j = tlc.judge_batches("RenderTrace", {}, [evs], "rndrp", jobs=1)
    return sorted(set(t[2] for t in j["fails_full"]))


def evidence(prop, res):
    cov = res["coverage"]
    n19 = sum(v for k, v in cov["kinds"].items() if k in ("gantt", "network", "dhtmlx"))
    n20 = sum(v for k, v in cov["kinds"].items() if k in ("sheet", "usage"))
    coverage = {
        "states": cov["judge_states"], "transitions": cov["judge_states"],
        "traces_validated_against_impl": n19 if prop == "C19" else n20,
        "evaluations": n19 if prop == "C19" else n20,
        "distinct_nontrivial": cov["nontrivial19"] if prop == "C19" else cov["nontrivial20"],
        "rule": ("seeded dated WBSs of 1-6 tasks (hierarchy, links, milestones, sections, style attributes, names from "
                 "an adversarial single-line pool) rendered by MermaidGantt, MermaidNetwork and DhtmlxGantt; "
                 "non-trivial = at least 2 tasks") if prop == "C19" else
                ("seeded WBSs printed through WBS / task / list print() and repr() with field selections (default, "
                 "subsets, unknown fields, upper case), children on/off, themes, None names, links leaving the WBS; "
                 "usage tables of real forward schedules; non-trivial = at least 2 tasks or a usage table"),
        "samples": cov["samples19"] if prop == "C19" else cov["samples20"], "exhaustive": False, "kinds": cov["kinds"],
        "checker_cmd": "tlc RenderTrace.tla (documents of Render.tla)",
    }
    return {"level": "model_checking", "coverage": coverage,
            "assumptions": ["TLC and the document decoders of harness/eng_render.py (template markers, line patterns, "
                            "json.loads, ANSI stripping, header offsets) are trusted",
                            "the specification decides which entries exist, in which groups and with which ids, dates, "
                            "flags and links; it never looks inside a string; browser-level HTML tokenisation of the "
                            "generated page is not modelled"]}
