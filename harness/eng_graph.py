"""Engine `graph`: mutation histories of tasks and WBSs (C01 C05 C11 C15 C16).

1. TLC model-checks the intended design (spec/MC_TaskGraph.tla) on a small universe and prints its
   reachable states.
2. The real objects are explored breadth-first with the same alphabet (harness/explore.py); every
   executed call is judged by TLC against spec/TaskGraphTrace.tla.
3. The two reachable sets are compared (conformance; differences are DRIFT, not violations).
4. Seeded random long histories over larger universes are recorded and judged the same way.
"""
import json
import random
import time

from . import common, explore, graph, tlc

PROPS = ["C01", "C05", "C11", "C15", "C16"]

MC_INVS = ["Inv_C01_Forest", "Inv_C01_Mirror", "Inv_C01_DagLinks", "Inv_C01_NoKin", "Inv_C05_UniqueId",
           "Inv_C11_Owner", "Inv_Core", "Inv_C05_Lookup", "Inv_C05_TasksOnce", "Emit"]
MC_PROPS = ["Act_C15", "Act_C11"]


def ordering_alphabet(N, W, ids):
    """Alphabet for the ordering universe (distinct ids): structure + every list facade, no links."""
    A = []
    nodes = range(1, N + W + 1)
    tasks = range(1, N + 1)
    act = graph.act
    for t in tasks:
        for p in range(0, N + 1):
            A.append(act("SetParent", n=p, t=t))
    for n in nodes:
        for s in graph.seqs(N, 3):
            if len(s) <= 2 or len(set(s)) == 3:
                A.append(act("SetChildren", n=n, seq=s))
                if len(s) >= 1:
                    A.append(act("SetChildren", n=n, seq=s, via=2))     # a generator as value
        for t in tasks:
            A.append(act("ChAppend", n=n, t=t))
            A.append(act("ChRemove", n=n, t=t))
            for i in range(-1, 5):
                A.append(act("ChInsert", n=n, t=t, i=i))
        for s in graph.seqs(N, 2, 1):
            for anchor in tasks:
                A.append(act("ChMove", n=n, seq=s, before=anchor))
                A.append(act("ChMove", n=n, seq=s, after=anchor))
        for t in tasks:
            A.append(act("ChMove", n=n, seq=[t]))
            A.append(act("ChMove", n=n, seq=[t], before=t % N + 1, after=t))
            A.append(act("ChMove", n=n, seq=[t], before=t % N + 1, after=(t + 1) % N + 1))
        for key in (1, 2):
            for rev in (0, 1):
                A.append(act("ChSort", n=n, key=key, rev=rev))
        idset = sorted(set(ids)) + [99]
        for k in range(0, 4):
            import itertools
            for s in itertools.product(idset, repeat=k):
                if k <= 2 or len(set(s)) == k:
                    A.append(act("ChReorder", n=n, seq=list(s)))
        for s in graph.seqs(N, 2, 1):
            A.append(act("FloorDiv", n=n, seq=s))
        # the same facades through handles grabbed before any mutation
        for t in tasks:
            A.append(act("ChAppend", n=n, t=t, via=1))
            A.append(act("ChRemove", n=n, t=t, via=1))
            for i in (0, 1):
                A.append(act("ChInsert", n=n, t=t, i=i, via=1))
            for anchor in tasks:
                A.append(act("ChMove", n=n, seq=[t], before=anchor, via=1))
                A.append(act("ChMove", n=n, seq=[t], after=anchor, via=1))
        for rev in (0, 1):
            A.append(act("ChSort", n=n, key=1, rev=rev, via=1))
        for i in sorted(set(ids)):
            A.append(act("ChReorder", n=n, seq=[i], via=1))
        for m in nodes:
            A.append(act("SetChildrenFrom", n=n, t=m, key=1))
    for w in range(N + 1, N + W + 1):
        for t in tasks:
            A.append(act("WbsRemove", n=w, t=t))
    return A


def random_action(rng, N, W, ids):
    """One random action over a larger universe (arguments legal or not)."""
    act = graph.act
    T = lambda: rng.randint(1, N)
    Nd = lambda: rng.randint(1, N + W)
    S = lambda lo, hi: [T() for _ in range(rng.randint(lo, hi))]
    k = rng.random()
    if k < 0.12:
        return act("SetParent", n=rng.randint(0, N), t=T())
    if k < 0.22:
        return act("SetChildren", n=Nd(), seq=S(0, 3))
    if k < 0.30:
        return act("ChAppend", n=Nd(), t=T())
    if k < 0.36:
        return act("ChInsert", n=Nd(), t=T(), i=rng.randint(-1, 4))
    if k < 0.40:
        return act("ChRemove", n=Nd(), t=T())
    if k < 0.48:
        if rng.random() < 0.5:
            return act("ChMove", n=Nd(), seq=S(1, 2), before=T())
        return act("ChMove", n=Nd(), seq=S(1, 2), after=T())
    if k < 0.52:
        return act("ChSort", n=Nd(), key=rng.randint(1, 2), rev=rng.randint(0, 1))
    if k < 0.56:
        return act("ChReorder", n=Nd(), seq=[rng.choice(ids + [99]) for _ in range(rng.randint(0, 3))])
    if k < 0.64:
        return act("SetPreds", t=T(), seq=S(0, 3))
    if k < 0.72:
        return act("SetSuccs", t=T(), seq=S(0, 3))
    if k < 0.78:
        return act(rng.choice(["PredAppend", "PredRemove", "SuccAppend", "SuccRemove"]), t=T(), n=T())
    if k < 0.84:
        return act("FloorDiv", n=Nd(), seq=S(1, 2))
    if k < 0.90:
        return act(rng.choice(["LShift", "RShift"]), t=T(), seq=S(1, 2))
    if k < 0.94:
        return act(rng.choice(["ListLShift", "ListRShift"]), n=Nd(), seq=S(1, 2))
    if k < 0.97:
        return act("WbsRemove", n=N + rng.randint(1, W), t=T())
    return act("SetChildrenOne", n=Nd(), t=T())


def dense_links(rng, N, W, ids, d, depth):
    """Step d of a history that first builds a dense dependency graph (every task gets up to three predecessors
    among the earlier ones of a random order, in random list order) and then tries link after link between
    random pairs: diamonds, long chains and shared ancestors, which random walks over everything rarely build."""
    act = graph.act
    if d == 0:
        rng.dense_order = rng.sample(range(1, N + 1), N)
    order = rng.dense_order
    if d < N:
        t = order[d]
        earlier = order[:d]
        return act("SetPreds", t=t, seq=rng.sample(earlier, min(len(earlier), rng.choice([0, 1, 2, 2, 3]))))
    a, b, c = rng.randint(1, N), rng.randint(1, N), rng.randint(1, N)
    k = rng.random()
    if k < 0.4:
        return act("PredAppend", t=a, n=b)
    if k < 0.6:
        return act("SuccAppend", t=a, n=b)
    if k < 0.8:
        return act("LShift", t=a, seq=[b, c])
    return act("RShift", t=a, seq=[b, c])


def handle_walk(rng, N, W, ids, d, depth):
    """Step d of a walk over ONE root list, mostly through list objects grabbed before any mutation: what a
    long-lived list object does after the list was sorted, moved in or reordered is hidden state that no
    projection shows, so it is walked, not enumerated."""
    act = graph.act
    n = N + 1
    t, x = rng.randint(1, N), rng.randint(1, N)
    via = 1 if rng.random() < 0.75 else 0
    k = rng.random()
    if k < 0.2:
        return act("ChAppend", n=n, t=t, via=via)
    if k < 0.35:
        return act("ChInsert", n=n, t=t, i=rng.choice([0, 0, 1, 2]), via=via)
    if k < 0.45:
        return act("ChRemove", n=n, t=t, via=via)
    if k < 0.65:
        return act("ChSort", n=n, key=rng.choice([1, 2]), rev=rng.choice([0, 1]), via=via)
    if k < 0.8:
        return act("ChMove", n=n, seq=[t], before=x, via=via) if rng.random() < 0.5 else \
            act("ChMove", n=n, seq=[t], after=x, via=via)
    if k < 0.9:
        return act("ChReorder", n=n, seq=[ids[t - 1]] if rng.random() < 0.5 else [ids[t - 1], ids[x - 1]], via=via)
    return act("SetChildren", n=n, seq=rng.sample(range(1, N + 1), rng.randint(0, N)))


def random_histories(ids, W, count, depth, seed, log, jobs=8, step=None):
    """Record `count` random histories of `depth` calls each and have TLC judge every step."""
    rng = random.Random(seed)
    N = len(ids)
    events = []
    hist_of = {}
    eid = 0
    prio = graph.default_prio(N)
    histories = []
    for h in range(count):
        U = graph.Universe(ids, W, prio=prio)
        pre = graph.project(U, obs=False)
        hist = []
        for d in range(depth):
            a = step(rng, N, W, ids, d, depth) if step else random_action(rng, N, W, ids)
            out, ret = graph.apply(U, a)
            post = graph.project(U)
            obs = post.pop("obs")
            same = graph.state_key(post) == graph.state_key(pre)
            ev = {"id": eid, "pre": pre, "act": a, "out": out, "ret": -1 if ret is None else ret, "same": same,
                  "pk": "", "prebroken": False}
            if not same:
                ev["post"] = post
                ev["obs"] = obs
            hist_of[eid] = (h, d)
            eid += 1
            events.append(ev)
            hist.append(a)
            pre = post
        histories.append(hist)
    C = explore.consts(ids, W, prio)
    per = max(1, -(-len(events) // jobs))
    batches = [events[i:i + min(per, explore.SLICE)] for i in range(0, len(events), min(per, explore.SLICE))]
    j = tlc.judge_batches("TaskGraphTrace", C, batches, "tgr", jobs=jobs)
    byid = {e["id"]: e for e in events}
    # only the FIRST failing step of a history is meaningful (later pre-states may be ill-formed)
    first = {}
    ndrift = 0
    for i, clause in j["fails"]:
        if clause.startswith("DRIFT"):
            ndrift += 1
            continue
        h, d = hist_of[i]
        if h not in first or d < first[h][0]:
            first[h] = (d, [])
        if first[h][0] == d:
            first[h][1].append(clause)
    fails = []
    for h, (d, clauses) in first.items():
        for clause in clauses:
            fails.append({"clause": clause, "universe": {"ids": ids, "W": W, "prio": prio},
                          "history": histories[h][:d + 1]})
    nontriv = sum(1 for e in events if explore.nontrivial(e))
    return {"events": len(events), "nontrivial": nontriv, "fails": fails, "ndrift": ndrift,
            "jstates": j["states"], "sample": [explore.sample_of(e) for e in events[5:7]]}


def _guard(fn):
    try:
        return fn()
    except Exception as e:          # re-raised in the main thread
        return e


def model_states(ids, W, L, level, log):
    prio = graph.default_prio(len(ids))
    r = tlc.run_model("MC_TaskGraph", {"N": len(ids), "W": W, "L": L, "LEVEL": level, "EMIT": True},
                      {"IdOf": ids, "Prio": prio}, "mctg", invariants=MC_INVS, properties=MC_PROPS,
                      view="View", workers=6)
    states = set()
    for t in tlc.tuples(r["out"], "STATE"):
        d = json.loads(t[1])
        states.add(json.dumps({"ch": d["ch"], "pre": [sorted(x) for x in d["pre"]]}, sort_keys=True))
    return r, states


def sorting_alphabet(N):
    """Alphabet of the sorting universe: one flat root list of N tasks, every way to order it.  Four listed
    tasks are the least with which a sort that is refused half-way (a key that cannot be compared) has already
    moved something."""
    A = []
    act = graph.act
    n = N + 1
    tasks = range(1, N + 1)
    for t in tasks:
        A.append(act("ChAppend", n=n, t=t))
        A.append(act("ChRemove", n=n, t=t))
        A.append(act("ChInsert", n=n, t=t, i=0))
        A.append(act("ChInsert", n=n, t=t, i=1))
        for anchor in tasks:
            A.append(act("ChMove", n=n, seq=[t], before=anchor))
            A.append(act("ChMove", n=n, seq=[t, t], after=anchor))
    for key in (1, 2, 3):
        for rev in (0, 1):
            A.append(act("ChSort", n=n, key=key, rev=rev))
            A.append(act("ChSort", n=n, key=key, rev=rev, via=1))
    for key in (0, 2, 3, 4):
        A.append(act("ChRemoveAll", n=n, key=key))
        A.append(act("ChRemoveAll", n=n, key=key, via=1))
        A.append(act("ChRemoveAll", n=n, key=key, via=2))
    return A


def impl_core_states(res):
    out = set()
    for k in res.state_keys:
        par, ch, pre, suc, own, attr, hv = eval(k)
        out.add(json.dumps({"ch": ch, "pre": [sorted(set(x)) for x in pre]}, sort_keys=True))
    return out


def run(tier, seed, log):
    t0 = time.time()
    fails = []
    cov = {"configs": [], "events": 0, "nontrivial": 0, "impl_states": 0, "mc_states": 0, "mc_transitions": 0,
           "judge_states": 0, "drift": 0, "samples": []}

    # --- 1. the intended design, model-checked -------------------------------------------------
    ids_a = [0, 2, 0]            # two objects share an id; the shared id is 0 (falsy ids must work like any other)
    # the design model check and the repository's tests run beside the exploration of the real objects
    import threading
    side = {}
    th_mc = threading.Thread(target=lambda: side.update(mc=_guard(lambda: model_states(ids_a, 2, 2, 3, log))))
    th_rt = threading.Thread(target=lambda: side.update(rt=_guard(lambda: repo_test_traces(log))))
    th_mc.start()
    th_rt.start()
    # --- 2. the real objects, explored with the same alphabet ----------------------------------
    configs = [dict(name="A", ids=ids_a, W=2, L=2, level=3, prune=True, light=(tier == "quick"))]
    ids_b = [0, -1, 5000]
    configs.append(dict(name="B", ids=ids_b, W=1, alphabet=ordering_alphabet(3, 1, ids_b), prune=True))
    configs.append(dict(name="S", ids=[7, -2, 5, 3], W=1, alphabet=sorting_alphabet(4), prio=[2, 1, 1, 0]))
    if tier == "thorough":
        configs.append(dict(name="C", ids=[0, 2, 0, -3], W=2, L=2, level=2, prune=True, max_levels=5,
                            frontier_cap=1000))
    impl_a = None
    for cfg in configs:
        rng = random.Random(seed * 7919 + len(cfg["ids"]))
        start = graph.Universe(cfg["ids"], cfg["W"], prio=cfg["prio"]) if cfg.get("prio") else None
        res = explore.run(cfg["ids"], cfg["W"], L=cfg.get("L", 2), level=cfg.get("level", 2), start=start,
                          alphabet=cfg.get("alphabet"), prune=cfg.get("prune", False), light=cfg.get("light", False),
                          max_levels=cfg.get("max_levels", 99), frontier_cap=cfg.get("frontier_cap"),
                          max_states=cfg.get("max_states", 6000),
                          rng=rng, log=lambda m, n=cfg["name"]: log("impl %s %s" % (n, m)))
        cov["configs"].append({"name": cfg["name"], "ids": cfg["ids"], "W": cfg["W"], "alphabet": res.alphabet,
                               "states": res.states, "events": res.events, "levels": res.levels,
                               "exhaustive": res.complete})
        cov["events"] += res.events
        cov["nontrivial"] += res.nontrivial
        cov["impl_states"] += res.states
        cov["judge_states"] += res.judge_states
        cov["drift"] += res.ndrift
        cov["samples"].extend(res.samples[:3])
        for e, clause in res.fails:
            fails.append({"clause": clause,
                          "universe": {"ids": cfg["ids"], "W": cfg["W"],
                                       "prio": cfg.get("prio") or graph.default_prio(len(cfg["ids"]))},
                          "history": explore.history_to(res, e["pk"]) + [e["act"]]})
        if cfg["name"] == "A":
            impl_a = res

    th_mc.join()
    if isinstance(side["mc"], Exception):
        raise side["mc"]
    mc, mstates = side["mc"]
    if not mc["ok"] or not mc["stats"]:
        bad = tlc.violated(mc["out"])
        raise tlc.TlcError("MC_TaskGraph: the intended design violates %s\n%s" % (bad, mc["out"][-3000:]))
    cov["mc_states"] = mc["stats"]["distinct"]
    cov["mc_transitions"] = mc["stats"]["generated"]
    log("MC_TaskGraph ids=%s W=2: %d states, %d transitions, all invariants hold (%.0fs)"
        % (ids_a, mc["stats"]["distinct"], mc["stats"]["generated"], mc["wall"]))

    # --- 3. reachable sets: design vs implementation -------------------------------------------
    if impl_a is not None and impl_a.complete:
        istates = impl_core_states(impl_a)
        cov["reach"] = {"design": len(mstates), "impl": len(istates), "common": len(mstates & istates),
                        "impl_only": len(istates - mstates), "design_only": len(mstates - istates)}
        log("reachable core states: design %d, implementation %d, common %d"
            % (len(mstates), len(istates), len(mstates & istates)))

    # --- 4. long random histories over larger universes ----------------------------------------
    if True:
        big = tier != "quick"
        plans = [([0, 2000, 3, 0, 2000, -4], 3, 1500 if big else 150, 40, None, "random"),
                 ([3, 1, 4, -1, 5, 9], 1, 3000 if big else 250, 20, dense_links, "dense links"),
                 ([0, -1, 5, 7000], 1, 4000 if big else 400, 12, handle_walk, "list objects")]
        if tier == "thorough":
            plans.append(([0, 2, 3, 4, -5, 0, 2, 6], 3, 600, 60, None, "random"))
        for ids, W, count, depth, step, pname in plans:
            r = random_histories(ids, W, count, depth, seed + 17, log, step=step)
            cov["events"] += r["events"]
            cov["nontrivial"] += r["nontrivial"]
            cov["judge_states"] += r["jstates"]
            cov["drift"] += r["ndrift"]
            cov["configs"].append({"name": pname, "ids": ids, "W": W, "histories": count, "depth": depth,
                                   "events": r["events"]})
            cov["samples"].extend(r["sample"][:1])
            fails.extend(r["fails"])
            log("%s histories ids=%s W=%d: %d calls judged, %d failing histories" % (pname, ids, W, r["events"],
                                                                                   len(r["fails"])))
    # --- 5. the repository's own tests, recorded and judged call by call ----------------------
    th_rt.join()
    if isinstance(side["rt"], Exception):
        raise side["rt"]
    rt = side["rt"]
    cov["repo_tests"] = {"tests": rt["tests"], "calls": rt["events"]}
    cov["events"] += rt["events"]
    cov["judge_states"] += rt["jstates"]
    for f in rt["fails"]:
        # the call site identifies a known finding: a constructor that fails after applying part of its
        # relation arguments (parent=, children=, successors=, predecessors=)
        f["tags"] = ["ctor-partial"] if f["call"] == "Task()" and f["clause"] == "C15.unchanged" else []
        fails.append(f)
    for f in fails:
        f["property"] = f["clause"].split(".")[0]
        f["engine"] = "graph"
        last = (f.get("history") or [{}])[-1]
        if last.get("name") == "New" and f["clause"] == "C15.unchanged":
            nargs = (1 if last["n"] else 0) + bin(last["key"]).count("1")
            if nargs >= 2:                     # rejected for a LATER relation argument: the known finding
                f.setdefault("tags", []).append("ctor-partial")
        if str(last.get("name", "")).startswith("Bulk") and f["clause"] == "C15.unchanged" and _bulk_prefix(f):
            f.setdefault("tags", []).append("bulk-setattr")
    return {"engine": "graph", "tier": tier, "seed": seed, "wall_s": time.time() - t0, "fails": fails,
            "coverage": cov}


def _bulk_prefix(f):
    """True when the state a rejected bulk assignment (<task list>.parent = p, .predecessors = ts) left behind is
    exactly the one reached by the single assignments to the FIRST k >= 1 listed tasks, the next one being
    rejected: the call-site class of the known finding KF-C15-bulk-setattr and nothing else."""
    u = f["universe"]
    hist = f["history"]
    last = hist[-1]

    def fresh():
        U = graph.Universe(u["ids"], u["W"], prio=u["prio"])
        for a in hist[:-1]:
            graph.apply(U, a)
        return U
    U = fresh()
    listed = graph.project(U, attrs=False, obs=False)["ch"][last["n"] - 1]
    out, _ = graph.apply(U, last)
    got = graph.project(U, obs=False)
    V = fresh()
    k = 0
    for t in listed:
        if last["name"] == "BulkParent":
            step = graph.act("SetParent", t=t, n=last["t"])
        else:
            step = graph.act("SetPreds", t=t, seq=last["seq"])
        o, _ = graph.apply(V, step)
        if o != "ok":
            break
        k += 1
    else:
        return False
    return out != "ok" and k >= 1 and graph.project(V, obs=False) == got


def replay(case, log):
    """Re-execute a stored history on the current tree and judge its last step."""
    if "test" in case:
        rt = repo_test_traces(log)
        return sorted({f["clause"] for f in rt["fails"] if f["test"] == case["test"] and
                       (case.get("tags") or "ctor-partial" not in ("ctor-partial" if f["call"] == "Task()" else ""))})
    u = case["universe"]
    U = graph.Universe(u["ids"], u["W"], prio=u["prio"])
    hist = case["history"]
    for a in hist[:-1]:
        graph.apply(U, a)
    pre = graph.project(U, obs=False)
    a = hist[-1]
    out, ret = graph.apply(U, a)
    post = graph.project(U)
    obs = post.pop("obs")
    same = graph.state_key(post) == graph.state_key(pre)
    ev = {"id": 0, "pre": pre, "act": a, "out": out, "ret": -1 if ret is None else ret, "same": same, "pk": "",
          "prebroken": False}
    if not same:
        ev["post"] = post
        ev["obs"] = obs
    j = tlc.judge_batches("TaskGraphTrace", explore.consts(u["ids"], u["W"], u["prio"]), [[ev]], "tgrp", jobs=1)
    log("replayed %d calls; last call %s -> %s" % (len(hist), {k: v for k, v in a.items() if v}, out))
    return [c for _, c in j["fails"] if not c.startswith("DRIFT")]


CLAUSES = {
    "C01": "C01.forest C01.mirror C01.dag C01.nokin evaluated on the projected state after EVERY call, returned or raised",
    "C05": "C05.unique, C05.lookup (w[id] for every id of the universe and an absent one; list(w.tasks) = DFS), "
           "C05.exctype (id clash => RuntimeError)",
    "C11": "C11.owner (task.wbs = reachability from the WBS's roots) after every call; C11.reattach "
           "(a detached tree without id clash is accepted by a WBS)",
    "C15": "C15.unchanged: a raising call leaves the whole projection (parents, ordered children, ordered link "
           "lists, owners, root lists, attributes) identical",
    "C16": "C16.effect: post-state is a member of Effects(pre, action) (documented effect + frame), C16.ret: "
           "documented return values",
}


def evidence(prop, res):
    cov = res["coverage"]
    coverage = {
        "states": cov["mc_states"] + cov["judge_states"],
        "transitions": cov["mc_transitions"] + cov["judge_states"],
        "traces_validated_against_impl": cov["events"],
        "evaluations": cov["events"],
        "distinct_nontrivial": cov["nontrivial"],
        "rule": "every action of the alphabet (all argument tuples, legal or not) applied to every reachable "
                "projected state of the real objects in small universes (BFS, each (state, action) pair once), "
                "plus seeded random histories over larger universes; non-trivial = the call changed the "
                "projected state or was refused; each counted event is a distinct (pre-state, action) pair "
                "or a distinct step of a random history",
        "samples": cov["samples"][:6],
        "exhaustive": all(c.get("exhaustive", True) for c in cov["configs"] if c["name"] in ("A", "B")),
        "configs": cov["configs"],
        "design_model": {"module": "spec/MC_TaskGraph.tla", "distinct_states": cov["mc_states"],
                         "transitions": cov["mc_transitions"]},
        "reachable_sets": cov.get("reach"),
        "drift_events": cov["drift"],
        "repository_tests_as_traces": cov.get("repo_tests"),
        "clauses": CLAUSES[prop],
        "checker_cmd": "tlc (TaskGraphTrace.tla judges every recorded call; MC_TaskGraph.tla model-checks the design)",
    }
    assumptions = [
        "TLC 1.8 and the refinement mapping harness/graph.py:project (public getters only) are trusted",
        "bounded: exhaustive for 3 task objects (ids 1,2,1 / 2 WBS; ids 1,2,3 / 1 WBS), sampled beyond",
        "DRIFT (accept/reject decision differs from the intended design) is reported, never a violation",
    ]
    return {"level": "model_checking", "coverage": coverage, "assumptions": assumptions}


# ---------------------------------------------------------------------------------------------
# the repository's own tests as validated traces
# ---------------------------------------------------------------------------------------------
def repo_test_traces(log):
    """Run /repo's test suite under the recording plugin and have TLC judge every recorded call."""
    import os
    import subprocess
    import tempfile
    out = tempfile.mktemp(prefix="tests-", suffix=".jsonl", dir=common.WORK)
    env = dict(os.environ, PJPLAN_TRACE_OUT=out, PYTHONPATH=common.VERIF + os.pathsep + common.SRC,
               PYTHONDONTWRITEBYTECODE="1")
    p = subprocess.run(["/venv/bin/python", "-m", "pytest", "-q", "-p", "no:cacheprovider", "-p", "harness.pytest_trace",
                        "tests"], cwd=common.REPO, env=env, stdout=subprocess.PIPE, stderr=subprocess.STDOUT,
                       text=True, timeout=900)
    tests = []
    try:
        with open(out) as fh:
            for line in fh:
                tests.append(json.loads(line))
    finally:
        try:
            os.unlink(out)
        except OSError:
            pass
    fails, nev, jstates, judged_tests = [], 0, 0, 0
    jobs = []
    for d in tests:
        n, w = d["n"], d["w"]
        if n == 0 or not d["events"]:
            continue
        idmap = {}
        ids = [idmap.setdefault(x, len(idmap) + 1) for x in d["ids"]]
        evs = []
        for i, e in enumerate(d["events"]):
            evs.append({"id": i, "call": e["call"], "out": e["out"], "pre": _pad(e["pre"], n, w), "post": _pad(e["post"], n, w)})
        jobs.append((d["test"], {"N": n, "W": w, "IdOf": ids, "Prio": [0] * n}, evs))

    def one(job):
        name, C, evs = job
        return name, evs, tlc.judge_batches("TestTrace", C, [evs], "tt", jobs=1)

    from concurrent.futures import ThreadPoolExecutor
    with ThreadPoolExecutor(max_workers=3) as pool:
        for name, evs, j in pool.map(one, jobs):
            judged_tests += 1
            nev += len(evs)
            jstates += j["states"]
            for t in j["fails_full"]:
                fails.append({"clause": t[2], "kind": "repo-test " + str(t[3]), "test": name, "event": t[1],
                              "call": t[3], "text": "%s, call #%d %s" % (name, t[1], t[3])})
    log("repository tests as traces: %d tests, %d public mutator calls judged, %d failing clauses (pytest: %s)"
        % (judged_tests, nev, len(fails), p.stdout.strip().splitlines()[-1] if p.stdout.strip() else "?"))
    return {"tests": judged_tests, "events": nev, "jstates": jstates, "fails": fails}


def _pad(g, n, w):
    """a snapshot taken when only g['n'] tasks / g['w'] WBSs existed, in the test's final universe"""
    k, v = g["n"], g["w"]
    return {"par": g["par"] + [0] * (n - k),
            "ch": g["ch"][:k] + [[] for _ in range(n - k)] + g["ch"][k:] + [[] for _ in range(w - v)],
            "pre": g["pre"] + [[] for _ in range(n - k)], "suc": g["suc"] + [[] for _ in range(n - k)],
            "own": g["own"] + [0] * (n - k)}
