"""Binding of the TaskGraph specification to pjplan's mutation API.

* Universe        : N task objects (ids need not be distinct) + W WBS objects, addressed by the
                    node numbers of spec/TaskGraph.tla (tasks 1..N, hidden roots N+1..N+W).
* project(U)      : the refinement mapping, computed through PUBLIC getters only.
* apply(U, act)   : abstract action -> public call (DESIGN Appendix D.1).  Returns (out, ret).
* alphabet(...)   : the action alphabet used by exploration (same parameters as the TLA+ model).

Nothing in here decides a property; verdicts come from TLC (spec/TaskGraphTrace.tla).
"""
import copy
import itertools
import pickle

from . import common

SORT_KEYS = ["prio", "id", "mix"]   # key index 1 -> "prio", 2 -> "id", 3 -> "mix" (prio, None where prio is 0)


def default_prio(n):
    """sort attribute with ties (1, 0, 1, 2, 0, 1, ...): tasks 1 and 3 compare equal"""
    return [(1, 0, 1, 2, 0, 2, 1, 0)[i % 8] for i in range(n)]


class Universe:
    def __init__(self, ids, nw, prio=None):
        pj = common.pjplan()
        self.ids = list(ids)
        self.n = len(ids)
        self.w = nw
        prio = prio or default_prio(self.n)
        self.prio = list(prio)
        # every task gets its OWN int object as id (int(str(..)): equal ids are equal numbers, not the same object -
        # small ints are shared by the interpreter anyway, large ones are not)
        self.tasks = [pj.Task(int(str(ids[i])), name="t%d" % (i + 1), prio=prio[i], mix=prio[i] or None)
                      for i in range(self.n)]
        self.wbs = [pj.WBS() for _ in range(nw)]
        # long-lived list handles grabbed before any mutation; calls with via=1 go through them
        self.handles = [t.children for t in self.tasks] + [w.roots for w in self.wbs]
        self.phandles = [t.predecessors for t in self.tasks]     # long-lived link-list objects
        self.shandles = [t.successors for t in self.tasks]
        self.extra_wbs = []     # WBS objects created by clone/subtree (numbered W+1, ...)
        self.extra_tasks = []   # task objects created by clone/subtree (numbered N+W+1...)

    def clone(self):
        return pickle.loads(pickle.dumps(self))

    # List facades cannot be copied or pickled (their __getattr__ answers every name).  A handle is saved
    # as "alias of the node's current list" or as the stale content it still holds, and rebuilt on load.
    def __getstate__(self):
        st = dict(self.__dict__)
        saved = []
        for n, h in enumerate(self.handles, start=1):
            cur = self.wbs_of(n)._root()._Task__children if self.is_root(n) else self.task(n)._Task__children
            if h._list is cur:
                saved.append(None)
            else:
                ti = self.tidx()
                saved.append([ti.get(id(x), 0) for x in h._list])
        st["handles"] = saved
        ti = self.tidx()
        for name, priv in (("phandles", "_Task__predecessors"), ("shandles", "_Task__successors")):
            sv = []
            for t, h in zip(self.tasks, getattr(self, name)):
                sv.append(None if h._list is t.__dict__[priv] else [ti.get(id(x), 0) for x in h._list])
            st[name] = sv
        return st

    def __setstate__(self, st):
        saved = st.pop("handles")
        psaved, ssaved = st.pop("phandles", None), st.pop("shandles", None)
        self.__dict__.update(st)
        self.handles = []
        for n, sv in enumerate(saved, start=1):
            h = self.wbs_of(n).roots if self.is_root(n) else self.task(n).children
            if sv is not None:
                h._list = [self.task(i) for i in sv if i]
            self.handles.append(h)
        self.phandles, self.shandles = [], []
        for t, pv, sv in zip(self.tasks, psaved or [None] * len(self.tasks), ssaved or [None] * len(self.tasks)):
            ph, sh = t.predecessors, t.successors
            if pv is not None:
                ph._list = [self.task(i) for i in pv if i]
            if sv is not None:
                sh._list = [self.task(i) for i in sv if i]
            self.phandles.append(ph)
            self.shandles.append(sh)

    # -- addressing --------------------------------------------------------------------------
    def task(self, t):
        return self.tasks[t - 1]

    def is_root(self, n):
        return n > self.n

    def wbs_of(self, n):
        return self.wbs[n - self.n - 1]

    def childlist(self, n, via=0):
        if via:
            return self.handles[n - 1]
        return self.wbs_of(n).roots if self.is_root(n) else self.task(n).children

    def listobj(self, m, kind):
        """a live task-list object of the API: kind 1 children/roots of node m, 2 predecessors, 3 successors"""
        if kind == 1:
            return self.childlist(m)
        return self.task(m).predecessors if kind == 2 else self.task(m).successors

    def set_childlist(self, n, seq):
        if self.is_root(n):
            self.wbs_of(n).roots = seq
        else:
            self.task(n).children = seq

    def tidx(self):
        return {id(t): i + 1 for i, t in enumerate(self.tasks)}

    def widx(self):
        return {id(w): i + 1 for i, w in enumerate(self.wbs)}


def _safe(fn, default):
    try:
        return fn()
    except RecursionError:
        return default
    except Exception:
        return default


def project(U: Universe, attrs=True, obs=True):
    """Abstract state of the universe, through public getters only."""
    ti = U.tidx()
    wi = U.widx()
    UNK = U.n + U.w + 1  # an object that is not part of the universe (never expected)

    def tix(x):
        return 0 if x is None else ti.get(id(x), UNK)

    par = [tix(t.parent) for t in U.tasks]
    ch = [[tix(c) for c in t.children] for t in U.tasks] + [[tix(c) for c in w.roots] for w in U.wbs]
    pre = [[tix(c) for c in t.predecessors] for t in U.tasks]
    suc = [[tix(c) for c in t.successors] for t in U.tasks]
    own = [0 if t.wbs is None else wi.get(id(t.wbs), U.w + 1) for t in U.tasks]
    g = {"par": par, "ch": ch, "pre": pre, "suc": suc, "own": own}
    # what the long-lived list handles show (hidden state of the binding: part of the state key only)
    g["hv"] = [[tix(c) for c in h] for h in U.handles] + \
              [[tix(c) for c in h] for h in getattr(U, "phandles", [])] + [[tix(c) for c in h] for h in getattr(U, "shandles", [])]
    if attrs:
        g["attr"] = [[_attr_code(t, "prio"), _attr_code(t, "tag")] for t in U.tasks]
    if obs:
        tasks = []
        lookup = []
        strlookup = []
        allids = sorted(set(U.ids)) + [max(U.ids) + 7]
        for w in U.wbs:
            tasks.append(_safe(lambda: [tix(c) for c in w.tasks], [UNK]))
            row = []
            for i in allids:
                try:
                    row.append(tix(w[i]))
                except RuntimeError as e:
                    row.append(-2 if isinstance(e, RecursionError) else 0)
                except Exception:
                    row.append(-1)
            lookup.append(row)
            # keys that are no member's id (the ids as text): lookup is exact, there is nothing to find
            srow = []
            for i in allids:
                try:
                    srow.append(tix(w[str(i)]))
                except RuntimeError as e:
                    srow.append(-2 if isinstance(e, RecursionError) else 0)
                except Exception:
                    srow.append(-1)
            strlookup.append(srow)
        g["obs"] = {"tasks": tasks, "lookup": lookup, "ids": allids, "strlookup": strlookup}
    return g


def _attr_code(t, name):
    """Attribute values are small ints in the model: -1 absent, 0 None, k>0 value k."""
    if name not in t.__dict__:
        return -1
    v = t.__dict__[name]
    if v is None:
        return 0
    return int(v) + 1


def state_key(g):
    return repr((g["par"], g["ch"], g["pre"], g["suc"], g["own"], g.get("attr"), g.get("hv")))


# ---------------------------------------------------------------------------------------------
# actions
# ---------------------------------------------------------------------------------------------
def act(name, n=0, t=0, i=0, seq=(), before=0, after=0, key=0, rev=0, via=0, seq2=(), seq3=()):
    return {"name": name, "n": n, "t": t, "i": i, "seq": list(seq), "before": before, "after": after,
            "key": key, "rev": rev, "via": via, "seq2": list(seq2), "seq3": list(seq3)}


def _one_or_list(U, seq):
    """single element sequences are passed as the bare task (the API accepts both)"""
    return [U.task(x) for x in seq]


def apply(U: Universe, a):
    """Execute the public call for abstract action `a`.  Returns (out, ret)."""
    name = a["name"]
    try:
        ret = _dispatch(U, name, a)
        return "ok", ret
    except RecursionError:
        return "RecursionError", None
    except RuntimeError:
        return "RuntimeError", None
    except Exception as e:  # any other exception type is still "raises"
        return type(e).__name__, None


def _dispatch(U, name, a):
    T = U.task
    n, t, seq = a["n"], a["t"], a["seq"]
    via = a.get("via", 0)
    if name == "New":
        # Task(id, parent=, children=, successors=, predecessors=): a NEW object takes the place of the
        # isolated task t (same id and attributes).  key: bit 1 children given, bit 2 successors, bit 4 predecessors
        pj = common.pjplan()
        old = T(t)
        kw = {}
        if n:
            kw["parent"] = T(n)
        if a["key"] & 1:
            kw["children"] = [T(x) for x in seq]
        if a["key"] & 2:
            kw["successors"] = [T(x) for x in a["seq2"]]
        if a["key"] & 4:
            kw["predecessors"] = [T(x) for x in a["seq3"]]
        try:
            if via == 1:        # the same through Task.clone(parent=, children=, ...): a copy with relations
                U.tasks[t - 1] = old.clone(**kw)
            else:
                U.tasks[t - 1] = pj.Task(old.id, name=old.name, prio=old.prio, mix=old.mix, **kw)
        except BaseException:
            # a half-built object may have stayed attached to universe tasks: it IS task t now
            z = _find_stranger(U)
            if z is not None:
                U.tasks[t - 1] = z
                U.handles[t - 1] = z.children
                U.phandles[t - 1] = z.predecessors
                U.shandles[t - 1] = z.successors
            raise
        U.handles[t - 1] = U.tasks[t - 1].children      # the long-lived handles belong to the new object
        U.phandles[t - 1] = U.tasks[t - 1].predecessors
        U.shandles[t - 1] = U.tasks[t - 1].successors
        return None
    if name == "SetParent":
        T(t).parent = None if n == 0 else T(n)
        return None
    if name == "SetChildren":
        # via=2: the value is a one-shot iterable (generator), which the API accepts like a list
        U.set_childlist(n, (T(x) for x in seq) if via == 2 else [T(x) for x in seq])
        return None
    if name == "BulkParent":           # <task list>.parent = p: the list facade assigns to every listed task
        U.childlist(n, via).parent = None if t == 0 else T(t)
        return None
    if name == "BulkPreds":
        U.childlist(n, via).predecessors = [T(x) for x in seq]
        return None
    if name == "SetChildrenOne":       # bare task instead of a list
        U.set_childlist(n, T(t))
        return None
    if name == "SetChildrenFrom":      # n.children = <live list object of the API>
        U.set_childlist(n, U.listobj(t, a["key"]))
        return None
    if name == "SetPredsFrom":
        T(n).predecessors = U.listobj(t, a["key"])
        return None
    if name == "SetSuccsFrom":
        T(n).successors = U.listobj(t, a["key"])
        return None
    if name == "ChAppend":
        U.childlist(n, via).append(T(t))
        return None
    if name == "ChInsert":
        U.childlist(n, via).insert(a["i"], T(t))
        return None
    if name == "ChRemove":
        return _b(U.childlist(n, via).remove(T(t)))
    if name == "ChMove":
        kw = {}
        if a["before"]:
            kw["before"] = T(a["before"])
        if a["after"]:
            kw["after"] = T(a["after"])
        ts = [T(x) for x in seq]
        U.childlist(n, via).move(ts[0] if len(ts) == 1 else ts, **kw)
        return None
    if name == "ChRemoveAll":
        lst = U.wbs_of(n) if via == 2 else U.childlist(n, via)      # via 2: WBS.remove_all (all members are candidates)
        if a["key"] == 4:
            lst.remove_all(lambda t: t.mix > 0)                     # cannot be evaluated where mix is None
        elif a["key"] == 0:
            lst.remove_all()
        elif a["rev"]:
            lst.remove_all(lambda t, k=a["key"] - 1: getattr(t, "prio", None) == k)
        else:
            lst.remove_all(prio=a["key"] - 1)
        return None
    if name == "ChSort":
        U.childlist(n, via).sort(SORT_KEYS[a["key"] - 1], reverse=bool(a["rev"]))
        return None
    if name == "ChReorder":
        U.childlist(n, via).reorder(list(seq))      # seq holds ids here
        return None
    if name == "SetPreds":
        T(t).predecessors = (T(x) for x in seq) if via == 2 else [T(x) for x in seq]
        return None
    if name == "SetSuccs":
        T(t).successors = (T(x) for x in seq) if via == 2 else [T(x) for x in seq]
        return None
    if name == "PredAppend":
        (U.phandles[t - 1] if via else T(t).predecessors).append(T(n))
        return None
    if name == "PredRemove":
        return _b((U.phandles[t - 1] if via else T(t).predecessors).remove(T(n)))
    if name == "SuccAppend":
        (U.shandles[t - 1] if via else T(t).successors).append(T(n))
        return None
    if name == "SuccRemove":
        return _b((U.shandles[t - 1] if via else T(t).successors).remove(T(n)))
    if name == "FloorDiv":
        xs = [T(x) for x in seq]
        arg = xs[0] if len(xs) == 1 else xs
        r = (U.wbs_of(n) // arg) if U.is_root(n) else (T(n) // arg)
        return 1 if r is arg else 0
    if name == "LShift":
        xs = [T(x) for x in seq]
        arg = xs[0] if len(xs) == 1 else xs
        r = T(t) << arg
        return 1 if r is arg else 0
    if name == "RShift":
        xs = [T(x) for x in seq]
        arg = xs[0] if len(xs) == 1 else xs
        r = T(t) >> arg
        return 1 if r is arg else 0
    if name == "ListLShift":           # children list of n  <<  xs
        xs = [T(x) for x in seq]
        U.childlist(n) << xs
        return None
    if name == "ListRShift":
        xs = [T(x) for x in seq]
        U.childlist(n) >> xs
        return None
    if name == "WbsRemove":
        return _b(U.wbs_of(n).remove(T(t)))
    raise AssertionError("unknown action " + name)


def _find_stranger(U):
    known = {id(x) for x in U.tasks}
    for x in U.tasks:
        for y in list(x.children) + list(x.predecessors) + list(x.successors) + ([x.parent] if x.parent else []):
            if id(y) not in known:
                return y
    for w in U.wbs:
        for y in w.roots:
            if id(y) not in known:
                return y
    return None


def _b(x):
    return 1 if x is True else (0 if x is False else 2)


LIST_FACADE = {"ChRemoveAll", "ChMove", "ChSort", "ChReorder", "ChRemove", "ListLShift", "ListRShift", "SetPredsFrom",
               "SetSuccsFrom", "BulkParent", "BulkPreds"}


def isolated(pre, t):
    return (pre["par"][t - 1] == 0 and pre["own"][t - 1] == 0 and not pre["ch"][t - 1] and not pre["pre"][t - 1]
            and not pre["suc"][t - 1] and not any(t in l for l in pre["ch"]))


def pruned(pre, a, N):
    """Exploration-only pruning: list-facade calls on an EMPTY list are kept for node 1 only
    (they are refused or no-ops for every node alike); a constructor call stands for a NEW object and is
    only made in place of a task that has no relations at all."""
    if a["name"] == "New":
        return not isolated(pre, a["t"])
    return a["name"] in LIST_FACADE and a["n"] != 1 and not pre["ch"][a["n"] - 1]


def seqs(n, maxlen, minlen=0):
    for k in range(minlen, maxlen + 1):
        for s in itertools.product(range(1, n + 1), repeat=k):
            yield list(s)


def alphabet(N, W, L=2, ids=None, level=2, light=False):
    """All actions with all argument combinations over the universe (legal or not).

    level 1: core setters; level 2: + list facades; level 3: + operators and list shifts.
    """
    A = []
    nodes = range(1, N + W + 1)
    tasks = range(1, N + 1)
    for t in tasks:
        for p in range(0, N + 1):
            A.append(act("SetParent", n=p, t=t))
    for n in nodes:
        for s in seqs(N, L):
            A.append(act("SetChildren", n=n, seq=s))
    for t in tasks:
        for s in seqs(N, L):
            A.append(act("SetPreds", t=t, seq=s))
            A.append(act("SetSuccs", t=t, seq=s))
    for w in range(N + 1, N + W + 1):
        for t in tasks:
            A.append(act("WbsRemove", n=w, t=t))
    if level >= 2:
        for n in nodes:
            for t in tasks:
                A.append(act("ChAppend", n=n, t=t))
                A.append(act("ChRemove", n=n, t=t))
                for i in range(0, 3):
                    A.append(act("ChInsert", n=n, t=t, i=i))
            # light: the ordering facades are explored in depth in the ordering universe (distinct ids)
            for s in seqs(N, 1 if light else 2, 1):
                for anchor in tasks:
                    A.append(act("ChMove", n=n, seq=s, before=anchor))
                    if not light:
                        A.append(act("ChMove", n=n, seq=s, after=anchor))
            for t in tasks:
                A.append(act("ChMove", n=n, seq=[t]))
                A.append(act("ChMove", n=n, seq=[t], before=t % N + 1, after=t))
                # both anchors given, neither of them the moved task: refused
                A.append(act("ChMove", n=n, seq=[t], before=t % N + 1, after=(t + 1) % N + 1))
            for key in (1, 3) if light else (1, 2, 3):
                for rev in (0, 1):
                    A.append(act("ChSort", n=n, key=key, rev=rev))
            A.append(act("ChRemoveAll", n=n, key=0))
            A.append(act("ChRemoveAll", n=n, key=2))            # remove_all(prio=1)
            A.append(act("ChRemoveAll", n=n, key=2, rev=1))     # ... with a callable
            A.append(act("ChRemoveAll", n=n, key=4))            # ... with a callable that raises for some tasks
            if n > N:
                for key in (0, 2, 4):
                    A.append(act("ChRemoveAll", n=n, key=key, via=2))
            idset = sorted(set(ids or [])) + [99]
            for k in range(0, 2 if light else 3):
                for s in itertools.product(idset, repeat=k):
                    A.append(act("ChReorder", n=n, seq=list(s)))
        for t in tasks:
            for x in tasks:
                A.append(act("PredAppend", t=t, n=x))
                A.append(act("PredRemove", t=t, n=x))
                A.append(act("SuccAppend", t=t, n=x))
                A.append(act("SuccRemove", t=t, n=x))
    if level >= 3:
        for n in nodes:
            for s in seqs(N, 2, 1):
                A.append(act("FloorDiv", n=n, seq=s))
        for t in tasks:
            for s in seqs(N, 2, 1):
                A.append(act("LShift", t=t, seq=s))
                A.append(act("RShift", t=t, seq=s))
        for n in nodes:
            for s in seqs(N, 1, 1):
                A.append(act("ListLShift", n=n, seq=s))
                A.append(act("ListRShift", n=n, seq=s))
            for t in tasks:
                A.append(act("SetChildrenOne", n=n, t=t))
            for s in seqs(N, 2, 2):             # one-shot iterables as values
                A.append(act("SetChildren", n=n, seq=s, via=2))
            # bulk assignment of a relation through the list facade
            for p in [0] + list(tasks):
                A.append(act("BulkParent", n=n, t=p))
            for s in seqs(N, 1, 0):
                A.append(act("BulkPreds", n=n, seq=s))
        for t in tasks:
            for s in seqs(N, 2, 2):
                A.append(act("SetPreds", t=t, seq=s, via=2))
                A.append(act("SetSuccs", t=t, seq=s, via=2))
        # constructor forms: Task(id, parent=p), Task(id, children=[..]), ... and combinations of two arguments
        for t in tasks:
            others = [x for x in tasks if x != t]
            for p in [0] + others:
                if p:
                    A.append(act("New", t=t, n=p))
                for s1 in [[x] for x in others]:        # a constructor cannot name the object it creates
                    A.append(act("New", t=t, n=p, key=1, seq=s1))
                    A.append(act("New", t=t, n=p, key=2, seq2=s1))
                    A.append(act("New", t=t, n=p, key=4, seq3=s1))
            # Task.clone(**relations) builds its copy the same way
            for p in others:
                A.append(act("New", t=t, n=p, via=1))
                for s1 in [[x] for x in others]:
                    A.append(act("New", t=t, n=p, key=4, seq3=s1, via=1))
            for s1 in [[x] for x in others]:
                A.append(act("New", t=t, key=1, seq=s1, via=1))
                A.append(act("New", t=t, key=2, seq2=s1, via=1))
            for s1 in [[x] for x in others]:
                for s2 in [[x] for x in others]:
                    A.append(act("New", t=t, key=3, seq=s1, seq2=s2))
                    A.append(act("New", t=t, key=5, seq=s1, seq3=s2))
                    A.append(act("New", t=t, key=6, seq2=s1, seq3=s2))
        # live list objects of the API as arguments (a.children = b.children, a.children = a.children, ...)
        for n in nodes:
            for m in nodes:
                A.append(act("SetChildrenFrom", n=n, t=m, key=1))
            for m in tasks:
                A.append(act("SetChildrenFrom", n=n, t=m, key=2))
        for n in tasks:
            for m in nodes:
                A.append(act("SetPredsFrom", n=n, t=m, key=1))
            for m in tasks:
                A.append(act("SetPredsFrom", n=n, t=m, key=2))
                A.append(act("SetSuccsFrom", n=n, t=m, key=3))
                A.append(act("SetSuccsFrom", n=n, t=m, key=2))
        # the same facade calls through long-lived handles
        for n in nodes:
            for t in tasks:
                A.append(act("ChAppend", n=n, t=t, via=1))
                A.append(act("ChRemove", n=n, t=t, via=1))
                A.append(act("ChInsert", n=n, t=t, i=0, via=1))
                A.append(act("ChMove", n=n, seq=[t], before=t % N + 1, via=1))
            A.append(act("ChSort", n=n, key=1, rev=0, via=1))
        for t in tasks:
            for x in tasks:
                for nm in ("PredAppend", "PredRemove", "SuccAppend", "SuccRemove"):
                    A.append(act(nm, t=t, n=x, via=1))
    return A
