#!/usr/bin/env python3
"""Regenerates MANIFEST.json from the table below (kept as code so it stays consistent)."""
import json

CLAIMED = {
    "C01": ("graph", "§6 C01", "All histories over 3 task objects (shared ids, 2 WBSs; distinct ids, 1 WBS) are enumerated on the real objects and every call is judged by TLC against TaskGraph.tla's C01 predicates on the projected post-state, returned or raised; the design model MC_TaskGraph.tla is model-checked and its reachable set compared with the implementation's; a sorting universe (4 tasks in one list, keys that cannot be compared), dense dependency graphs over 6 tasks, walks through long-lived list objects and seeded random histories over 6-8 objects extend the bound; the repository's own tests are replayed call by call."),
    "C05": ("graph", "§6 C05", "Same exploration; TLC evaluates id uniqueness per WBS and per tree, exact lookup w[id] for every id and an absent one, DFS listing, and RuntimeError on id clashes, on every recorded call."),
    "C11": ("graph", "§6 C11", "Same exploration over 2-3 WBSs; TLC evaluates owner = reachability from the WBS roots after every call and that detached trees are accepted again."),
    "C15": ("graph", "§6 C15", "Same exploration; for every raising call TLC compares the complete projection before and after (ordered children, ordered link lists, owners, roots, attributes)."),
    "C16": ("graph", "§6 C16", "Same exploration; for every returning call TLC checks post-state in Effects(pre, action) (documented effect plus frame) and documented return values."),
    "C17": ("calendar", "§6 C17", "Calendar expressions (every leaf definition, valid and invalid, alone and under every operator with every other leaf or number; seeded deeper trees) are built with the real classes, probed on every day of a window at two times of day and at validity boundaries, and searched in both directions with small horizons that grow and shrink again on one resource object; the lists and tables handed to the constructors are edited after the call; TLC evaluates the same expression with Calendar.tla (exact rationals) and judges every observation."),
    "C02": ("sched", "§6 C02", "Scheduling inputs (every forest shape of <=3/4 tasks with seeded link placements on leaves and summaries, attributes, resources, calendars, flags, project start and clock; seeded random inputs up to 8-10 tasks) are executed by the real forward scheduler under a frozen clock; TLC evaluates C02's clauses of Sched.tla on each recorded execution (dates and the usage ledger)."),
    "C03": ("sched", "§6 C03", "Same executions, both schedulers; TLC replays the usage ledger row by row against the capacity computed from the calendar expression by Calendar.tla, and compares the report's totals, filtered views and resources."),
    "C04": ("sched", "§6 C04", "Same executions; TLC checks reserved work = remaining work, once per day, consistent with start/end, no rows for milestones/completed/summaries, user-fixed dates kept."),
    "C06": ("sched", "§6 C06", "Same executions; the input projection before/after, the result's structure, repeated calls on the same and a fresh scheduler, and a second clock value are recorded and compared by TLC; schedulable inputs must return."),
    "C07": ("sched", "§6 C07", "Same executions; TLC checks start<=end for every task and every roll-up (start, end, estimate, spent, WBS.start/end)."),
    "C08": ("sched", "§6 C08", "Same executions (forward); TLC checks tightness on the final ledger, the exact date encoding from ledger positions, WBS order of dependency-free leaves, and independence from unrelated tasks with balancing off (paired run)."),
    "C09": ("sched", "§6 C09", "Same executions (backward); TLC checks deadline, every declared and inherited dependency at task and leaf level, late packing and the end-of-day date encoding."),
    "C14": ("sched", "§6 C14", "Same executions plus unschedulable inputs (external predecessor without dates, future fixed end, never-available resources, hierarchy-closed cycles), quotient calendars whose divisor is 0 on some days, float residues and mixed id types, under a watchdog; TLC classifies the outcome and demands RuntimeError exactly for Unschedulable(I)."),
    "C12": ("crit", "§6 C12", "CritPath.tla defines the zero-float leaves and, independently, the leaves on a longest chain; TLC checks the two definitions equal on every bounded input (MC_CritPath) and compares WBS.critical_path() of the real code with Critical(I) on every forest shape of <=4/5 tasks with link placements on leaves and summaries, ties, zero lengths, and integer/dyadic/decimal amounts, plus seeded random WBSs."),
    "C18": ("query", "§6 C18", "Query.tla defines Matches/Select for plain keywords, the twelve suffixes (with its own regular-expression search) and callables, and the effect of bulk assignment and remove_all; seeded worlds with present/absent/None attributes are queried through every list of the API and TLC compares the returned list (order and members), the unchanged world, the bulk-assigned attributes and the post-removal structure with the model."),
    "C10": ("copy", "§6 C10", "In every reachable state of the real objects of the small universe (shared ids, 2 WBSs, links to outside tasks) each WBS is cloned and sub-treed for every selection of <=2 roots; TLC judges the copy against TaskGraph.tla's state: members, fresh objects, owner, field values, root order, hierarchy, links inside the selection reproduced, links to other members dropped, links to outside tasks kept on the same objects (mirror side included), WBS attributes, source unchanged; independence is probed by mutating each side; every second call comes after earlier copies, exports and a newly added attribute. The constructor form WBS(tasks=seq) is replayed against JudgeFlat as drift-only conformance."),
    "C13": ("csv", "§6 C13", "CsvIO.tla models the file layout at the level of rows and cells (Rows) and the reading (Parse); TLC checks Parse(Rows(W)) ~ W and the fixpoint on every bounded world (MC_CsvIO) and compares, for seeded worlds with adversarial strings, boundary dates, ids 0/negative, sparse custom attributes: the decoded written file with Rows(W), read_csv(write_csv(w)) with W, files written by the harness in the documented layout (with and without BOM) with W, byte equality of the second and third generation files, and a read-edit-write-read history (hierarchy, links, attributes that were not columns of the file)."),
    "C19": ("render", "§6 C19", "Render.tla defines the Mermaid Gantt, Mermaid network and DHTMLX documents as abstract entry sequences/sets; seeded dated WBSs with sections, styles, milestones and adversarial single-line names are rendered by the real classes, decoded into entries by the harness (template markers, line patterns anchored on the known pool strings, json.loads) and compared by TLC: one task line per task under its section with id/dates/milestone flag, one edge per dependency and one Start edge per predecessor-free task, one JSON entry per task, uniquely numbered links, progress in 0..1, srcdoc = escaped document."),
    "C20": ("render", "§6 C20", "Render.tla defines the rows of a sheet (depth-first, children on/off) and the link cells; WBS/task/list print() and repr() with field selections (default, subsets, unknown, upper case), themes, None names and links leaving the WBS are decoded via the header offsets and compared by TLC: line count, order, 3-space indentation per level, equal line widths, separated columns, link and parent cells with the external marker, empty cells for unknown fields; usage tables have one line per day between first and last reservation."),
}
NOT_YET = {}
ALL = ["C%02d" % i for i in range(1, 21)]

def main():
    checks = []
    for pid, (eng, ref, text) in CLAIMED.items():
        checks.append({
            "property_id": pid,
            "quick_cmd": "./check %s --tier quick" % pid,
            "thorough_cmd": "./check %s --tier thorough" % pid,
            "evidence_file": "/verif/evidence/%s.json" % pid,
            "replay_cmd_template": "./check %s --replay {path}" % pid,
            "engine": eng,
            "level_claimed": {"category": "model_checking", "text": text, "design_ref": ref},
            "level_note": "Bounded: exhaustive inside small universes, sampled beyond. Trusted: TLC, the TLA+ definitions in /verif/spec, the projection through public getters (harness/graph.py). DRIFT against the intended design is informational.",
            "technique": "explicit TLA+ specification; TLC model-checks the design and judges every call recorded from the real objects (trace validation) ",
        })
    na = [{"property_id": p, "reason": NOT_YET.get(p, "check under construction in this session: specification module not bound to the code yet")}
          for p in ALL if p not in CLAIMED]
    m = {
        "version": 1,
        "setup_cmd": "./setup.sh",
        "hooks": {"guard": "PJPLAN_VERIF", "enable": "no source hooks: all observation goes through the public API; checks import pjplan from /repo/src with PJPLAN_VERIF=1 set",
                  "baseline_off_cmd": "cd /repo && env -u PJPLAN_VERIF /venv/bin/python -m pytest -ra -q -p no:cacheprovider --timeout=900 --continue-on-collection-errors",
                  "source_commits": [], "add_only": True},
        "engines": [{"name": "graph", "path": "/verif/harness/eng_graph.py", "serves_properties": ["C01", "C05", "C11", "C15", "C16"],
                     "kind_free_text": "TLA+ TaskGraph/MC_TaskGraph/TaskGraphTrace; BFS over real objects + TLC judge; repository tests replayed as traces (TestTrace)"},
                    {"name": "sched", "path": "/verif/harness/eng_sched.py", "serves_properties": ["C02", "C03", "C04", "C06", "C07", "C08", "C09", "C14"],
                     "kind_free_text": "TLA+ Sched/SchedTrace (+Calendar) judge; Forward/Backward design machines model-checked (MC_Forward, MC_Backward) and replayed against recorded executions (ForwardTrace, BackwardTrace)"},
                    {"name": "crit", "path": "/verif/harness/eng_crit.py", "serves_properties": ["C12"],
                     "kind_free_text": "TLA+ CritPath/MC_CritPath/CritTrace"},
                    {"name": "query", "path": "/verif/harness/eng_query.py", "serves_properties": ["C18"],
                     "kind_free_text": "TLA+ Query/QueryTrace"},
                    {"name": "copy", "path": "/verif/harness/eng_copy.py", "serves_properties": ["C10"],
                     "kind_free_text": "TLA+ CopyTrace (TaskGraph definitions); clone/subtree on every reachable state"},
                    {"name": "csv", "path": "/verif/harness/eng_csv.py", "serves_properties": ["C13"],
                     "kind_free_text": "TLA+ CsvIO/MC_CsvIO/CsvTrace"},
                    {"name": "render", "path": "/verif/harness/eng_render.py", "serves_properties": ["C19", "C20"],
                     "kind_free_text": "TLA+ Render/RenderTrace; documents decoded into entries by the harness"},
                    {"name": "calendar", "path": "/verif/harness/eng_calendar.py", "serves_properties": ["C17"],
                     "kind_free_text": "TLA+ Calendar/CalendarTrace; enumerated expression trees judged by TLC"}],
        "checks": checks,
        "not_applicable": na,
        "notes": "See DESIGN.md. All checks: ./check <ID> [--tier quick|thorough] [--replay path].",
    }
    json.dump(m, open("MANIFEST.json", "w"), indent=1)

main()
